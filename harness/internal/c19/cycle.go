package c19

import (
	"context"
	"fmt"
	"math/rand/v2"
	"time"

	v1 "k8s.io/api/core/v1"
	metav1 "k8s.io/apimachinery/pkg/apis/meta/v1"
	"k8s.io/apimachinery/pkg/types"

	enginev2 "github.com/NVIDIA/KAI-scheduler/pkg/apis/scheduling/v2"
	enginev2alpha2 "github.com/NVIDIA/KAI-scheduler/pkg/apis/scheduling/v2alpha2"

	"verif/harness/internal/sched"
	"verif/harness/internal/spec"
)

const maxCyclePods = 8

// cycleResult is what the real scheduler cycle + real binder did with the sampled pods of a case.
type cycleResult struct {
	Ran      bool     `json:"ran"`
	Pods     []string `json:"pods,omitempty"`
	Placed   []string `json:"placed,omitempty"`
	Unplaced []string `json:"unplaced,omitempty"`
	Panic    string   `json:"panic,omitempty"`
	OpenErr  string   `json:"openErr,omitempty"`
	Err      string   `json:"err,omitempty"`
	DurMs    int64    `json:"durMs"`
}

func unlimited() enginev2.QueueResource {
	return enginev2.QueueResource{Quota: -1, Limit: -1, OverQuotaWeight: 1}
}

// runCycleSample puts up to maxCyclePods admitted pods of the case (as mutated by admission) on a fresh one-node
// store with one unlimited queue, runs ONE real scheduler cycle (cache.New -> OpenSession -> allocate ->
// CloseSession), and then lets the real binder bind every BindRequest the real cache wrote. For each such pod
// rec.BindCycle holds what was materialised; the harness' copy of createBindRequest is compared with the real one.
func runCycleSample(seed int64, index int, recs []*PodRecord, mutated map[string]*v1.Pod, rng *rand.Rand) (res cycleResult, env *binderEnv) {
	t0 := time.Now()
	defer func() { res.DurMs = time.Since(t0).Milliseconds() }()
	// sample: admitted pods the scheduler will see as GPU-sharing requests; the ones whose annotations do not
	// denote a valid quantity first (that is what reaches a production scheduler), then valid ones
	var pick []*PodRecord
	for pass := 0; pass < 2; pass++ {
		for _, r := range recs {
			if !r.Adm.Accepted || !r.sharing || mutated[r.In.Name] == nil {
				continue
			}
			odd := !r.valid || !r.Sched.Shared || len(r.fs) > 0
			if (pass == 0) != odd {
				continue
			}
			if pass == 0 && len(pick) >= 4 {
				continue
			}
			if !odd && (r.expDev < 1 || r.expDev > 4 || r.expMem > nodeGPUMem) {
				continue
			}
			if len(pick) < maxCyclePods {
				pick = append(pick, r)
			}
		}
	}
	if len(pick) == 0 {
		return res, nil
	}
	env, err := newBinderEnv()
	if err != nil {
		res.Err = err.Error()
		return res, nil
	}
	now := time.Now().Truncate(time.Second)
	root := &enginev2.Queue{ObjectMeta: metav1.ObjectMeta{Name: "root", UID: "queue-root", CreationTimestamp: metav1.NewTime(now.Add(-100 * time.Hour))},
		Spec: enginev2.QueueSpec{Resources: &enginev2.QueueResources{GPU: unlimited(), CPU: unlimited(), Memory: unlimited()}}}
	leaf := &enginev2.Queue{ObjectMeta: metav1.ObjectMeta{Name: "leaf", UID: "queue-leaf", CreationTimestamp: metav1.NewTime(now.Add(-99 * time.Hour))},
		Spec: enginev2.QueueSpec{ParentQueue: "root", Resources: &enginev2.QueueResources{GPU: unlimited(), CPU: unlimited(), Memory: unlimited()}}}
	if err := env.st.Add(root, leaf); err != nil {
		res.Err = err.Error()
		return res, env
	}
	byName := map[string]*PodRecord{}
	for i, r := range pick {
		p := mutated[r.In.Name].DeepCopy()
		pgName := "pg-" + r.In.Name
		p.Annotations["pod-group-name"] = pgName
		p.CreationTimestamp = metav1.NewTime(now.Add(-time.Duration(60-i) * time.Minute))
		pg := &enginev2alpha2.PodGroup{ObjectMeta: metav1.ObjectMeta{Name: pgName, Namespace: podNS, UID: types.UID("pgu-" + r.In.Name),
			CreationTimestamp: p.CreationTimestamp, Annotations: map[string]string{}},
			Spec: enginev2alpha2.PodGroupSpec{MinMember: 1, Queue: "leaf"}}
		if err := env.st.Add(pg, p); err != nil {
			res.Err = err.Error()
			return res, env
		}
		byName[r.In.Name] = r
		res.Pods = append(res.Pods, r.In.Name)
	}
	c := &spec.Case{Property: "C19", Seed: seed, Index: index, Profile: "c19", Cycles: 1,
		Config: spec.SchedConfig{Actions: "allocate", MaxNumberConsolidationPreemptees: 16}}
	runner, err := sched.NewRunner(env.st, c, rng, sched.Hooks{})
	if err != nil {
		res.Err = "runner: " + err.Error()
		return res, env
	}
	res.Ran = true
	cr := runner.Cycle()
	res.Panic, res.OpenErr = short(cr.Panic, 1500), cr.OpenErr

	brs, err := env.st.Kai.SchedulingV1alpha2().BindRequests(podNS).List(context.Background(), metav1.ListOptions{})
	if err != nil {
		res.Err = "list bindrequests: " + err.Error()
		return res, env
	}
	placed := map[string]bool{}
	for i := range brs.Items {
		br := &brs.Items[i]
		r := byName[br.Spec.PodName]
		if r == nil {
			continue
		}
		placed[r.In.Name] = true
		r.CycleOutcome = "placed"
		res.Placed = append(res.Placed, r.In.Name)
		view := env.bind(mutated[r.In.Name], br, true)
		view.FromCycle = true
		r.BindCycle = &view
	}
	for _, r := range pick {
		if !placed[r.In.Name] {
			r.CycleOutcome = "unplaced"
			res.Unplaced = append(res.Unplaced, fmt.Sprintf("%s%v", r.In.Name, r.In.Ann))
		}
	}
	return res, env
}
