package checks

import (
	"verif/harness/internal/oracle"
	"verif/harness/internal/run"
	"verif/harness/internal/sched"
	"verif/harness/internal/spec"
)

func cyc(f func(m *oracle.Model, events []sched.Event, cycle int, st *oracle.Stats) []run.Violation) CycleOracle {
	return func(m *oracle.Model, res *sched.CycleResult, after *spec.Objects, c *spec.Case, st *oracle.Stats) []run.Violation {
		return f(m, res.Events, res.Cycle, st)
	}
}

const genRule = "clusters drawn from the PCG stream (VERIF_SEED, case index) by internal/gen profile %q; " +
	"real cache.New+OpenSession+actions+CloseSession per cycle on the shared in-memory store; world model applies decisions between cycles. "

// RegisterAll registers every check.
func RegisterAll() {
	run.Register(&SchedCheck{Id: "C01", Profile: "tight", Quick: 320, Thorough: 6000, Oracle: cyc(oracle.CheckC01),
		RuleText: genRule + "Non-trivial: a case with >=1 successful Bind onto a node that held a terminating or same-cycle-evicted pod, or that ended within 25% of full in a requested resource. Distinct = distinct hash of (objects, config, faults).",
		Assume:   []string{"DRA-claimed devices and CSI capacity are not checked", "pod slots of future reservation pods are not charged to the bind that opens a GPU group"}})
	run.Register(&SchedCheck{Id: "C02", Profile: "fractions", Quick: 320, Thorough: 6000, Oracle: cyc(oracle.CheckC02),
		RuleText: genRule + "Non-trivial: a case that binds a fractional pod into a group that already has a sharer, binds a multi-fraction pod, or binds on a node with <=1 free GPU device.",
		Assume:   []string{"one accounting unit (1/deviceMemory) of slack per sharer", "device identity of whole-GPU pods is not observable; checked as whole+shared<=count"}})
}
