package checks

import (
	"verif/harness/internal/oracle"
	"verif/harness/internal/run"
	"verif/harness/internal/sched"
	"verif/harness/internal/spec"
)

func cyc(f func(m *oracle.Model, events []sched.Event, cycle int, st *oracle.Stats) []run.Violation) CycleOracle {
	return func(m *oracle.Model, res *sched.CycleResult, after *spec.Objects, c *spec.Case, st *oracle.Stats) []run.Violation {
		return f(m, res.Events, res.Cycle, st)
	}
}

const genRule = "clusters drawn from the PCG stream (VERIF_SEED, case index) by internal/gen profile %q; " +
	"real cache.New+OpenSession+actions+CloseSession per cycle on the shared in-memory store; world model applies decisions between cycles. "

// RegisterAll registers every check.
func RegisterAll() {
	run.Register(&SchedCheck{Id: "C01", Profile: "tight", Quick: 320, Thorough: 6000, Oracle: cyc(oracle.CheckC01),
		RuleText: genRule + "Non-trivial: a case with >=1 successful Bind onto a node that held a terminating or same-cycle-evicted pod, or that ended within 25% of full in a requested resource. Distinct = distinct hash of (objects, config, faults).",
		Assume:   []string{"DRA-claimed devices and CSI capacity are not checked", "pod slots of future reservation pods are not charged to the bind that opens a GPU group"}})
	run.Register(&SchedCheck{Id: "C02", Profile: "fractions", Quick: 320, Thorough: 6000, Oracle: cyc(oracle.CheckC02),
		RuleText: genRule + "Non-trivial: a case that binds a fractional pod into a group that already has a sharer, binds a multi-fraction pod, or binds on a node with <=1 free GPU device.",
		Assume:   []string{"one accounting unit (1/deviceMemory) of slack per sharer", "device identity of whole-GPU pods is not observable; checked as whole+shared<=count"}})
	run.Register(&SchedCheck{Id: "C03", Profile: "gangs", Quick: 320, Thorough: 6000, Oracle: cyc(oracle.CheckC03), SkipFaulty: true,
		RuleText: genRule + "Non-trivial: a case in which a gang with total minimum >= 2 received a bind, nomination or eviction. Evaluated only on cases without injected API write failures.",
		Assume:   []string{"pods whose sub-group label names no leaf sub-group are ignored (the scheduler ignores them too)", "the eviction clause is judged only for gangs that were at or above minimum in every pod set before the cycle"}})
	run.Register(&SchedCheck{Id: "C04", Profile: "constraints", Quick: 320, Thorough: 6000, Oracle: cyc(oracle.CheckC04),
		RuleText: genRule + "Non-trivial: a case with a bind/nomination of a pod whose hard constraints exclude at least one node of the pool, or that carries inter-pod (anti-)affinity terms, or whose group/sub-group has a required topology level.",
		Assume: []string{"terminating, same-cycle-evicted and merely nominated pods are don't-care for inter-pod terms (either reading accepted)", "only Ready/unschedulable node conditions are demanded",
			"topology: labels are demanded for the required level and coarser levels only; already active pods pin the domain only if they lie in one domain"}})
}
