package checks

import (
	"verif/harness/internal/c05"
	"verif/harness/internal/c09"
	"verif/harness/internal/c11"
	"verif/harness/internal/c12"
	"verif/harness/internal/c17"
	"verif/harness/internal/c18"
	"verif/harness/internal/c19"
	"verif/harness/internal/c20"
	"verif/harness/internal/run"
)

// RegisterAll registers every check. (Scheduler-side checks live in register_sched.go; add one
// run.Register line per additional check below.)
func RegisterAll() {
	run.Register(c19.New())
	run.Register(c18.New())
	registerSched()
	run.Register(c05.New())
	run.Register(c09.New())
	run.Register(c20.New())
	run.Register(c17.New())
	run.Register(c11.New())
	run.Register(c12.New())
}
