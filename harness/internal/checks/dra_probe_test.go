//go:build verif

package checks

// Hand-built minimal DRA scenarios on a real session (real cache over the in-memory store, real dynamicresources
// plugin), driven through the exported Statement API. They print what the C13 dump and the C14 claim oracle see;
// they assert nothing about /repo (the findings they illustrate are described in DRA_NOTES.md), only that the
// harness itself works: the plugin is enabled and the claims are visible.
//
//	go test -tags verif ./internal/checks -run TestDRAProbe -v

import (
	"fmt"
	"strings"
	"testing"

	v1 "k8s.io/api/core/v1"
	resourceapi "k8s.io/api/resource/v1"
	"k8s.io/apimachinery/pkg/api/resource"
	metav1 "k8s.io/apimachinery/pkg/apis/meta/v1"
	"k8s.io/apimachinery/pkg/types"
	"k8s.io/utils/ptr"

	schedulingv1alpha2 "github.com/NVIDIA/KAI-scheduler/pkg/apis/scheduling/v1alpha2"
	enginev2 "github.com/NVIDIA/KAI-scheduler/pkg/apis/scheduling/v2"
	enginev2alpha2 "github.com/NVIDIA/KAI-scheduler/pkg/apis/scheduling/v2alpha2"
	"github.com/NVIDIA/KAI-scheduler/pkg/scheduler/api/common_info"
	"github.com/NVIDIA/KAI-scheduler/pkg/scheduler/api/eviction_info"
	"github.com/NVIDIA/KAI-scheduler/pkg/scheduler/api/pod_info"
	"github.com/NVIDIA/KAI-scheduler/pkg/scheduler/framework"

	"verif/harness/internal/gen"
	"verif/harness/internal/mon"
	"verif/harness/internal/sched"
	"verif/harness/internal/spec"
	"verif/harness/internal/store"
	"verif/harness/internal/world"
)

type probe struct{ c *spec.Case }

func newProbe(nodes map[string]int) *probe {
	mon.DRAEnabled = true
	c := &spec.Case{Seed: 1, Profile: "probe", Cycles: 1, Meta: map[string]any{}}
	c.Config.Actions = "allocate"
	unl := enginev2.QueueResource{Quota: -1, Limit: -1, OverQuotaWeight: 1}
	for _, q := range []struct{ n, p string }{{"dept", ""}, {"q0", "dept"}} {
		c.Objects.Queues = append(c.Objects.Queues, &enginev2.Queue{ObjectMeta: metav1.ObjectMeta{Name: q.n, UID: types.UID("queue-" + q.n)},
			Spec: enginev2.QueueSpec{ParentQueue: q.p, Resources: &enginev2.QueueResources{GPU: unl, CPU: unl, Memory: unl}}})
	}
	c.Objects.DeviceClasses = append(c.Objects.DeviceClasses, &resourceapi.DeviceClass{ObjectMeta: metav1.ObjectMeta{Name: gen.DRAClass}})
	for name, k := range nodes {
		alloc := v1.ResourceList{v1.ResourceCPU: resource.MustParse("16"), v1.ResourceMemory: resource.MustParse("64Gi"), v1.ResourcePods: resource.MustParse("110")}
		c.Objects.Nodes = append(c.Objects.Nodes, &v1.Node{ObjectMeta: metav1.ObjectMeta{Name: name, UID: types.UID("node-" + name), Labels: map[string]string{"kubernetes.io/hostname": name}},
			Status: v1.NodeStatus{Allocatable: alloc, Capacity: alloc, Conditions: []v1.NodeCondition{{Type: v1.NodeReady, Status: v1.ConditionTrue}}}})
		sl := &resourceapi.ResourceSlice{ObjectMeta: metav1.ObjectMeta{Name: "slice-" + name},
			Spec: resourceapi.ResourceSliceSpec{Driver: gen.DRADriver, NodeName: ptr.To(name), Pool: resourceapi.ResourcePool{Name: name, Generation: 1, ResourceSliceCount: 1}}}
		for i := 0; i < k; i++ {
			sl.Spec.Devices = append(sl.Spec.Devices, resourceapi.Device{Name: fmt.Sprintf("d%d", i)})
		}
		c.Objects.ResourceSlices = append(c.Objects.ResourceSlices, sl)
	}
	return &probe{c}
}

func (p *probe) group(name string, min int32) {
	p.c.Objects.PodGroups = append(p.c.Objects.PodGroups, &enginev2alpha2.PodGroup{ObjectMeta: metav1.ObjectMeta{Name: name, Namespace: "ns", UID: types.UID("pgu-" + name)},
		Spec: enginev2alpha2.PodGroupSpec{MinMember: min, Queue: "q0"}})
}

func alloc(node string, devs ...string) *resourceapi.AllocationResult {
	a := &resourceapi.AllocationResult{NodeSelector: &v1.NodeSelector{NodeSelectorTerms: []v1.NodeSelectorTerm{{
		MatchFields: []v1.NodeSelectorRequirement{{Key: "metadata.name", Operator: v1.NodeSelectorOpIn, Values: []string{node}}}}}}}
	for _, d := range devs {
		a.Devices.Results = append(a.Devices.Results, resourceapi.DeviceRequestAllocationResult{Request: "req", Driver: gen.DRADriver, Pool: node, Device: d})
	}
	return a
}

func (p *probe) claim(name string, a *resourceapi.AllocationResult, reservedFor ...string) {
	c := &resourceapi.ResourceClaim{ObjectMeta: metav1.ObjectMeta{Name: name, Namespace: "ns", UID: types.UID("claim-" + name)},
		Spec: resourceapi.ResourceClaimSpec{Devices: resourceapi.DeviceClaim{Requests: []resourceapi.DeviceRequest{{Name: "req",
			Exactly: &resourceapi.ExactDeviceRequest{DeviceClassName: gen.DRAClass, AllocationMode: resourceapi.DeviceAllocationModeExactCount, Count: 1}}}}}}
	c.Status.Allocation = a
	for _, r := range reservedFor {
		c.Status.ReservedFor = append(c.Status.ReservedFor, resourceapi.ResourceClaimConsumerReference{Resource: "pods", Name: r, UID: types.UID("uid-" + r)})
	}
	p.c.Objects.ResourceClaims = append(p.c.Objects.ResourceClaims, c)
}

// pod adds a pod of a group that references a claim; node != "" and running: Running there; node != "" and
// !running: Pending with a pending BindRequest to that node carrying brAlloc.
func (p *probe) pod(name, group, claim, node string, running bool, brAlloc *resourceapi.AllocationResult) {
	pod := &v1.Pod{ObjectMeta: metav1.ObjectMeta{Name: name, Namespace: "ns", UID: types.UID("uid-" + name), Annotations: map[string]string{"pod-group-name": group}, Labels: map[string]string{}},
		Spec: v1.PodSpec{SchedulerName: spec.SchedulerName, ResourceClaims: []v1.PodResourceClaim{{Name: gen.DRAPodClaimName, ResourceClaimName: ptr.To(claim)}},
			Containers: []v1.Container{{Name: "main", Image: "img", Resources: v1.ResourceRequirements{Requests: v1.ResourceList{v1.ResourceCPU: resource.MustParse("1")}}}}},
		Status: v1.PodStatus{Phase: v1.PodPending}}
	if node != "" && running {
		pod.Spec.NodeName = node
		pod.Status.Phase = v1.PodRunning
	}
	if node != "" && !running {
		p.c.Objects.BindRequests = append(p.c.Objects.BindRequests, &schedulingv1alpha2.BindRequest{ObjectMeta: metav1.ObjectMeta{Name: name, Namespace: "ns", UID: types.UID("br-" + name),
			Labels: map[string]string{"selected-node": node}, OwnerReferences: []metav1.OwnerReference{{APIVersion: "v1", Kind: "Pod", Name: name, UID: pod.UID}}},
			Spec: schedulingv1alpha2.BindRequestSpec{PodName: name, SelectedNode: node, ReceivedResourceType: "Regular", ReceivedGPU: &schedulingv1alpha2.ReceivedGPU{Count: 0, Portion: "0.00"},
				ResourceClaimAllocations: []schedulingv1alpha2.ResourceClaimAllocation{{Name: gen.DRAPodClaimName, Allocation: brAlloc}}},
			Status: schedulingv1alpha2.BindRequestStatus{Phase: schedulingv1alpha2.BindRequestPhasePending}})
	}
	p.c.Objects.Pods = append(p.c.Objects.Pods, pod)
}

func claimLines(ssn *framework.Session) []string {
	var out []string
	for _, l := range mon.Dump(ssn) {
		if strings.HasPrefix(l, "claim") {
			out = append(out, strings.ReplaceAll(l, gen.DRADriver+"/", ""))
		}
	}
	return out
}

// run opens one real session on the probe's objects and runs body inside it (no actions are executed).
func (p *probe) run(t *testing.T, body func(ssn *framework.Session, task func(group, pod string) *pod_info.PodInfo)) {
	st := store.New()
	if err := st.Add(p.c.Objects.All()...); err != nil {
		t.Fatal(err)
	}
	p.c.Config.Actions = "allocate"
	ran := false
	hooks := sched.Hooks{AfterOpen: func(ssn *framework.Session, rc *sched.RecCache) {
		ran = true
		body(ssn, func(group, pod string) *pod_info.PodInfo {
			for _, ti := range ssn.ClusterInfo.PodGroupInfos[common_info.PodGroupID(group)].GetAllPodsMap() {
				if ti.Name == pod {
					return ti
				}
			}
			t.Fatalf("pod %s not in session", pod)
			return nil
		})
	}}
	r, err := sched.NewRunner(st, p.c, gen.NewRand(1, 0, 2), hooks)
	if err != nil {
		t.Fatal(err)
	}
	// the actions of the cycle run after the body; the probes leave nothing pending, so they do nothing
	cr := r.Cycle()
	if cr.Panic != "" || cr.OpenErr != "" || !ran {
		t.Fatalf("cycle: panic=%q openErr=%q ran=%v", cr.Panic, cr.OpenErr, ran)
	}
}

func show(t *testing.T, title string, lines []string) {
	t.Logf("%s", title)
	for _, l := range lines {
		t.Logf("    %s", l)
	}
}

// F3 (the reviewer's hint): sole-consumer claim, Evict(v); Pipeline(v, same node) (takes the un-evict path); Discard().
func TestDRAProbeEvictPipelineSameNodeDiscard(t *testing.T) {
	p := newProbe(map[string]int{"n0": 2})
	p.group("pg-v", 1)
	p.claim("claim-v", alloc("n0", "d1"), "v")
	p.pod("v", "pg-v", "claim-v", "n0", true, nil)
	p.run(t, func(ssn *framework.Session, task func(string, string) *pod_info.PodInfo) {
		v := task("pg-v", "v")
		before := claimLines(ssn)
		if len(before) == 0 {
			t.Fatalf("the session shows no claim: DRA is not enabled in the harness")
		}
		show(t, "before:", before)
		stmt := ssn.Statement()
		_ = stmt.Evict(v, "probe", eviction_info.EvictionMetadata{})
		show(t, "after Evict(v):", claimLines(ssn))
		_ = stmt.Pipeline(v, "n0", false)
		show(t, "after Pipeline(v, n0) [un-evict path]:", claimLines(ssn))
		stmt.Discard()
		after := claimLines(ssn)
		show(t, "after Discard():", after)
		show(t, "C14 claim oracle after Discard():", mon.CheckClaims(ssn, map[string]int{}))
		t.Logf("dump equal: %v", strings.Join(before, "|") == strings.Join(after, "|"))
	})
}

// F2: shared claim, both consumers evicted, the first one nominated on another node: its remembered allocation
// (stored by the deallocate handler while the sibling still held the claim) overrides the unallocated claim.
func TestDRAProbeSharedClaimStaleMemory(t *testing.T) {
	p := newProbe(map[string]int{"n0": 1, "n1": 1})
	p.group("pg-s", 1)
	p.claim("claim-s", alloc("n0", "d0"), "a", "b")
	p.pod("a", "pg-s", "claim-s", "n0", true, nil)
	p.pod("b", "pg-s", "claim-s", "n0", true, nil)
	p.run(t, func(ssn *framework.Session, task func(string, string) *pod_info.PodInfo) {
		a, b := task("pg-s", "a"), task("pg-s", "b")
		show(t, "before:", claimLines(ssn))
		stmt := ssn.Statement()
		_ = stmt.Evict(a, "probe", eviction_info.EvictionMetadata{})
		_ = stmt.Evict(b, "probe", eviction_info.EvictionMetadata{})
		show(t, "after Evict(a); Evict(b):", claimLines(ssn))
		_ = stmt.Pipeline(a, "n1", false)
		show(t, "after Pipeline(a, n1):", claimLines(ssn))
		show(t, "C14 claim oracle:", mon.CheckClaims(ssn, map[string]int{}))
		stmt.Discard()
		show(t, "after Discard():", claimLines(ssn))
	})
}

// F1: shared claim allocated through a running consumer; a second consumer is being bound (pending BindRequest).
func TestDRAProbeBindingConsumerOfAllocatedSharedClaim(t *testing.T) {
	p := newProbe(map[string]int{"n0": 1})
	p.group("pg-s", 1)
	p.claim("claim-s", alloc("n0", "d0"), "a")
	p.pod("a", "pg-s", "claim-s", "n0", true, nil)
	p.pod("b", "pg-s", "claim-s", "n0", false, alloc("n0", "d0"))
	p.run(t, func(ssn *framework.Session, task func(string, string) *pod_info.PodInfo) {
		a := task("pg-s", "a")
		show(t, "at session open:", claimLines(ssn))
		show(t, "C14 claim oracle at session open:", mon.CheckClaims(ssn, map[string]int{}))
		stmt := ssn.Statement()
		_ = stmt.Evict(a, "probe", eviction_info.EvictionMetadata{})
		show(t, "after Evict(a) (b is still Binding on n0):", claimLines(ssn))
		show(t, "C14 claim oracle:", mon.CheckClaims(ssn, map[string]int{}))
		stmt.Discard()
		show(t, "after Discard():", claimLines(ssn))
	})
}

// F4: ONE scheduler cache over two cycles. Cycle 1 commits Evict(a) + Pipeline(p, n0): in the scheduler's view a's
// claim is deallocated and p's claim holds a's device (p waits for a to terminate). a is still terminating when
// cycle 2 starts; the plugin restores every claim to its API object at session open, one claim after the other.
func TestDRAProbePersistentCacheRestoreOrder(t *testing.T) {
	lost, bound := 0, 0
	const rounds = 12
	for round := 0; round < rounds; round++ {
		p := newProbe(map[string]int{"n0": 1})
		p.group("pg-a", 1)
		p.group("pg-p", 1)
		p.claim("claim-a", alloc("n0", "d0"), "a")
		p.claim("claim-p", nil)
		p.pod("a", "pg-a", "claim-a", "n0", true, nil)
		p.pod("p", "pg-p", "claim-p", "", false, nil)
		st := store.New()
		if err := st.Add(p.c.Objects.All()...); err != nil {
			t.Fatal(err)
		}
		st.GracefulPods.Store(true)
		cycle := 0
		var open2, oracle2 []string
		hooks := sched.Hooks{AfterOpen: func(ssn *framework.Session, rc *sched.RecCache) {
			cycle++
			find := func(group, pod string) *pod_info.PodInfo {
				for _, ti := range ssn.ClusterInfo.PodGroupInfos[common_info.PodGroupID(group)].GetAllPodsMap() {
					if ti.Name == pod {
						return ti
					}
				}
				return nil
			}
			if cycle == 1 {
				stmt := ssn.Statement()
				_ = stmt.Evict(find("pg-a", "a"), "probe", eviction_info.EvictionMetadata{})
				_ = stmt.Pipeline(find("pg-p", "p"), "n0", false)
				if round == 0 {
					show(t, "cycle 1 after Evict(a); Pipeline(p, n0):", claimLines(ssn))
				}
				_ = stmt.Commit()
				return
			}
			open2, oracle2 = claimLines(ssn), mon.CheckClaims(ssn, map[string]int{})
		}}
		p.c.Config.Actions = "allocate"
		r, err := sched.NewRunner(st, p.c, gen.NewRand(1, 0, 2), hooks)
		if err != nil {
			t.Fatal(err)
		}
		r.Persistent = true
		// cycle 1: the allocate action runs after the hook and finds p already nominated
		c1 := r.Cycle()
		c2 := r.Cycle()
		r.Close()
		boundP := false
		for _, e := range c2.Events {
			if e.Kind == "bind" && e.Pod == "p" && e.Err == "" {
				boundP = true
			}
		}
		missing := false
		for _, l := range oracle2 {
			if strings.Contains(l, "device-set-missing") {
				missing = true
			}
		}
		if missing {
			lost++
		}
		if boundP {
			bound++
		}
		if round == 0 || (boundP && bound == 1) {
			t.Logf("round %d: cycle 1 events: %v", round, evs(c1.Events))
			show(t, "cycle 2 at session open (pod a is still terminating, claim-a is allocated to n0/d0 in the API):", open2)
			show(t, "C14 claim oracle at cycle 2 open:", oracle2)
			t.Logf("cycle 2 events: %v", evs(c2.Events))
		}
	}
	t.Logf("%d rounds: the allocator's device set lost n0/d0 at the second session open in %d, pod p was BOUND onto the device of the terminating pod in %d", rounds, lost, bound)
}

func evs(es []sched.Event) []string {
	var out []string
	for _, e := range es {
		out = append(out, fmt.Sprintf("%s:%s(%s->%s,claims=%v,err=%q)", e.Action, e.Kind, e.Pod, e.Node, e.Claims, e.Err))
	}
	return out
}

// R1: a Binding pod (in-flight BindRequest with a claim allocation) is evicted, un-evicted, evicted again.
func TestDRAProbeEvictedBindingPod(t *testing.T) {
	p := newProbe(map[string]int{"n0": 2})
	p.group("pg-b", 1)
	p.claim("claim-b", nil)
	p.pod("b", "pg-b", "claim-b", "n0", false, alloc("n0", "d1"))
	p.run(t, func(ssn *framework.Session, task func(string, string) *pod_info.PodInfo) {
		b := task("pg-b", "b")
		show(t, "at session open:", claimLines(ssn))
		show(t, "oracle:", mon.CheckClaims(ssn, map[string]int{}))
		stmt := ssn.Statement()
		_ = stmt.Evict(b, "probe", eviction_info.EvictionMetadata{})
		show(t, "after Evict(b):", claimLines(ssn))
		show(t, "oracle:", mon.CheckClaims(ssn, map[string]int{}))
		_ = stmt.Pipeline(b, "n0", false)
		show(t, "after Pipeline(b, n0) [un-evict]:", claimLines(ssn))
		show(t, "oracle:", mon.CheckClaims(ssn, map[string]int{}))
		stmt.Discard()
		show(t, "after Discard():", claimLines(ssn))
		show(t, "oracle:", mon.CheckClaims(ssn, map[string]int{}))
		stmt2 := ssn.Statement()
		_ = stmt2.Evict(b, "probe", eviction_info.EvictionMetadata{})
		show(t, "after a second Evict(b):", claimLines(ssn))
		show(t, "oracle:", mon.CheckClaims(ssn, map[string]int{}))
		stmt2.Discard()
		show(t, "after Discard():", claimLines(ssn))
	})
}

// R2: the victim's device goes to the preemptor, then the victim is placed on its own node again (un-evict path).
func TestDRAProbeUnevictAfterDeviceWentToPreemptor(t *testing.T) {
	p := newProbe(map[string]int{"n0": 2})
	p.group("pg-v", 1)
	p.group("pg-p", 1)
	p.claim("claim-v", alloc("n0", "d0"), "v")
	p.claim("claim-p", nil)
	p.pod("v", "pg-v", "claim-v", "n0", true, nil)
	p.pod("p", "pg-p", "claim-p", "", false, nil)
	p.run(t, func(ssn *framework.Session, task func(string, string) *pod_info.PodInfo) {
		v, pp := task("pg-v", "v"), task("pg-p", "p")
		show(t, "before:", claimLines(ssn))
		stmt := ssn.Statement()
		_ = stmt.Evict(v, "probe", eviction_info.EvictionMetadata{})
		_ = stmt.Pipeline(pp, "n0", false)
		show(t, "after Evict(v); Pipeline(p, n0):", claimLines(ssn))
		_ = stmt.Pipeline(v, "n0", false)
		show(t, "after Pipeline(v, n0) [un-evict path]:", claimLines(ssn))
		show(t, "C14 claim oracle:", mon.CheckClaims(ssn, map[string]int{}))
		stmt.Discard()
		show(t, "after Discard():", claimLines(ssn))
		show(t, "C14 claim oracle:", mon.CheckClaims(ssn, map[string]int{}))
	})
}

// R5: two pending pods share an unallocated claim; Allocate both, Discard.
func TestDRAProbeDiscardLeavesRememberedAllocation(t *testing.T) {
	p := newProbe(map[string]int{"n0": 1})
	p.group("pg-s", 1)
	p.claim("claim-s", nil)
	p.pod("b1", "pg-s", "claim-s", "", false, nil)
	p.pod("b2", "pg-s", "claim-s", "", false, nil)
	p.run(t, func(ssn *framework.Session, task func(string, string) *pod_info.PodInfo) {
		b1, b2 := task("pg-s", "b1"), task("pg-s", "b2")
		before := claimLines(ssn)
		show(t, "before:", before)
		stmt := ssn.Statement()
		_ = stmt.Allocate(b1, "n0")
		_ = stmt.Allocate(b2, "n0")
		show(t, "after Allocate(b1, n0); Allocate(b2, n0):", claimLines(ssn))
		stmt.Discard()
		after := claimLines(ssn)
		show(t, "after Discard():", after)
		t.Logf("dump equal: %v", strings.Join(before, "|") == strings.Join(after, "|"))
	})
}

var claimGVRProbe = resourceapi.SchemeGroupVersion.WithResource("resourceclaims")

// persistentProbe runs n cycles on ONE scheduler cache; between(i) runs after cycle i, open(i, ssn) at the open of cycle i.
func (p *probe) persistent(t *testing.T, n int, open func(cycle int, ssn *framework.Session), between func(cycle int, st *store.Store)) [][]sched.Event {
	st := store.New()
	if err := st.Add(p.c.Objects.All()...); err != nil {
		t.Fatal(err)
	}
	st.GracefulPods.Store(true)
	cycle := 0
	hooks := sched.Hooks{AfterOpen: func(ssn *framework.Session, rc *sched.RecCache) {
		cycle++
		if open != nil {
			open(cycle, ssn)
		}
	}}
	p.c.Config.Actions = "allocate"
	r, err := sched.NewRunner(st, p.c, gen.NewRand(1, 0, 2), hooks)
	if err != nil {
		t.Fatal(err)
	}
	r.Persistent = true
	defer r.Close()
	var out [][]sched.Event
	for i := 1; i <= n; i++ {
		cr := r.Cycle()
		if cr.Panic != "" || cr.OpenErr != "" {
			t.Fatalf("cycle %d: panic=%q openErr=%q", i, cr.Panic, cr.OpenErr)
		}
		out = append(out, cr.Events)
		if between != nil {
			between(i, st)
		}
	}
	return out
}

// R3: the in-flight allocation of a bind request is signalled at session open and never withdrawn. One scheduler
// cache: cycle 1 sees b Binding (in flight, n0/d0); the binder completes; later b is deleted and its claim
// deallocated. The only device of the node never becomes available to the pending pod p again.
func TestDRAProbeInFlightAllocationNeverWithdrawn(t *testing.T) {
	p := newProbe(map[string]int{"n0": 1})
	p.group("pg-b", 1)
	p.group("pg-p", 1)
	p.claim("claim-b", nil)
	p.claim("claim-p", nil)
	p.pod("b", "pg-b", "claim-b", "n0", false, alloc("n0", "d0"))
	p.pod("p", "pg-p", "claim-p", "", false, nil)
	podGVR := v1.SchemeGroupVersion.WithResource("pods")
	brGVR := schedulingv1alpha2.GroupVersion.WithResource("bindrequests")
	evs := p.persistent(t, 4, func(cycle int, ssn *framework.Session) {
		show(t, fmt.Sprintf("cycle %d at session open:", cycle), claimLines(ssn))
		show(t, "  C14 claim oracle:", mon.CheckClaims(ssn, map[string]int{}))
	}, func(cycle int, st *store.Store) {
		switch cycle {
		case 1: // the binder completes the bind of b
			o, _ := st.Tracker.Get(claimGVRProbe, "ns", "claim-b")
			c := o.(*resourceapi.ResourceClaim).DeepCopy()
			c.Status.Allocation = alloc("n0", "d0")
			c.Status.ReservedFor = []resourceapi.ResourceClaimConsumerReference{{Resource: "pods", Name: "b", UID: "uid-b"}}
			_ = st.Tracker.Update(claimGVRProbe, c, "ns")
			po, _ := st.Tracker.Get(podGVR, "ns", "b")
			pod := po.(*v1.Pod).DeepCopy()
			pod.Spec.NodeName, pod.Status.Phase = "n0", v1.PodRunning
			_ = st.Tracker.Update(podGVR, pod, "ns")
			bo, _ := st.Tracker.Get(brGVR, "ns", "b")
			br := bo.(*schedulingv1alpha2.BindRequest).DeepCopy()
			br.Status.Phase = schedulingv1alpha2.BindRequestPhaseSucceeded
			_ = st.Tracker.Update(brGVR, br, "ns")
			t.Logf("-- after cycle 1: bind of b completed (claim-b allocated n0/d0, reserved for b, b Running)")
		case 2: // b finishes and is deleted; the claim controller deallocates its claim
			_ = st.Tracker.Delete(podGVR, "ns", "b")
			_ = st.Tracker.Delete(brGVR, "ns", "b")
			_, _ = world.ReconcileClaims(st)
			t.Logf("-- after cycle 2: pod b and its bind request are gone, claim-b is deallocated; n0/d0 is free")
		}
	})
	for i, e := range evs {
		t.Logf("cycle %d events: %v", i+1, evsOf(e))
	}
}

// R4: as TestDRAProbePersistentCacheRestoreOrder, but the victim's claim object is written between the cycles (any
// update: here an annotation), so the informer has re-added its devices before the next session restores the claims.
func TestDRAProbeRestoreAfterInformerUpdate(t *testing.T) {
	p := newProbe(map[string]int{"n0": 1})
	p.group("pg-a", 1)
	p.group("pg-p", 1)
	p.claim("claim-a", alloc("n0", "d0"), "a")
	p.claim("claim-p", nil)
	p.pod("a", "pg-a", "claim-a", "n0", true, nil)
	p.pod("p", "pg-p", "claim-p", "", false, nil)
	find := func(ssn *framework.Session, group, pod string) *pod_info.PodInfo {
		for _, ti := range ssn.ClusterInfo.PodGroupInfos[common_info.PodGroupID(group)].GetAllPodsMap() {
			if ti.Name == pod {
				return ti
			}
		}
		return nil
	}
	evs := p.persistent(t, 2, func(cycle int, ssn *framework.Session) {
		if cycle == 1 {
			stmt := ssn.Statement()
			_ = stmt.Evict(find(ssn, "pg-a", "a"), "probe", eviction_info.EvictionMetadata{})
			_ = stmt.Pipeline(find(ssn, "pg-p", "p"), "n0", false)
			_ = stmt.Commit()
			return
		}
		show(t, "cycle 2 at session open (a is still terminating, claim-a holds n0/d0 in the API):", claimLines(ssn))
		show(t, "  C14 claim oracle:", mon.CheckClaims(ssn, map[string]int{}))
	}, func(cycle int, st *store.Store) {
		if cycle == 1 {
			o, _ := st.Tracker.Get(claimGVRProbe, "ns", "claim-a")
			c := o.(*resourceapi.ResourceClaim).DeepCopy()
			c.Annotations = map[string]string{"touched": "1"}
			_ = st.Tracker.Update(claimGVRProbe, c, "ns")
		}
	})
	for i, e := range evs {
		t.Logf("cycle %d events: %v", i+1, evsOf(e))
	}
}

func evsOf(es []sched.Event) []string { return evs(es) }

// R6: the in-flight allocation of a claim that is DELETED between two sessions (a generated claim goes with its
// owner pod: the Binding pod was evicted / deleted) is not withdrawn: session open only walks the claims that still
// exist. One scheduler cache; the node has one device.
func TestDRAProbeInFlightAllocationOfDeletedClaim(t *testing.T) {
	p := newProbe(map[string]int{"n0": 1})
	p.group("pg-b", 1)
	p.group("pg-p", 1)
	p.claim("b-accel", nil)
	p.claim("claim-p", nil)
	p.pod("b", "pg-b", "b-accel", "n0", false, alloc("n0", "d0"))
	p.pod("p", "pg-p", "claim-p", "", false, nil)
	podGVR := v1.SchemeGroupVersion.WithResource("pods")
	brGVR := schedulingv1alpha2.GroupVersion.WithResource("bindrequests")
	evs := p.persistent(t, 3, func(cycle int, ssn *framework.Session) {
		show(t, fmt.Sprintf("cycle %d at session open:", cycle), claimLines(ssn))
		show(t, "  C14 claim oracle:", mon.CheckClaims(ssn, map[string]int{}))
	}, func(cycle int, st *store.Store) {
		if cycle == 1 {
			_ = st.Tracker.Delete(podGVR, "ns", "b")
			_ = st.Tracker.Delete(brGVR, "ns", "b")
			_ = st.Tracker.Delete(claimGVRProbe, "ns", "b-accel")
			t.Logf("-- after cycle 1: pod b, its bind request and its generated claim b-accel are deleted; n0/d0 is free")
		}
	})
	for i, e := range evs {
		t.Logf("cycle %d events: %v", i+1, evsOf(e))
	}
}

// R2b is sticky: once a victim was re-placed on a substitute device (its own was held by the preemptor), every later
// evict / un-evict of it in the session restores the substitute, also when its real device is free again.
func TestDRAProbePermutedVictimKeepsSubstituteDevice(t *testing.T) {
	p := newProbe(map[string]int{"n0": 2})
	p.group("pg-v", 1)
	p.group("pg-p", 1)
	p.claim("claim-v", alloc("n0", "d0"), "v")
	p.claim("claim-p", nil)
	p.pod("v", "pg-v", "claim-v", "n0", true, nil)
	p.pod("p", "pg-p", "claim-p", "", false, nil)
	p.run(t, func(ssn *framework.Session, task func(string, string) *pod_info.PodInfo) {
		v, pp := task("pg-v", "v"), task("pg-p", "p")
		var h mon.ClaimHistory
		oracle := func() []string { return h.Classify(mon.CheckClaims(ssn, map[string]int{})) }
		stmt := ssn.Statement()
		_ = stmt.Evict(v, "probe", eviction_info.EvictionMetadata{})
		_ = stmt.Pipeline(pp, "n0", false)
		_ = stmt.Pipeline(v, "n0", false)
		show(t, "after Evict(v); Pipeline(p, n0); Pipeline(v, n0) [un-evict]:", claimLines(ssn))
		show(t, "C14 claim oracle:", oracle())
		_ = stmt.Evict(pp, "probe", eviction_info.EvictionMetadata{})
		show(t, "after Evict(p) (the nominated preemptor is dropped again; n0/d0 is free in the view):", claimLines(ssn))
		show(t, "C14 claim oracle:", oracle())
		_ = stmt.Evict(v, "probe", eviction_info.EvictionMetadata{})
		_ = stmt.Pipeline(v, "n0", false)
		show(t, "after Evict(v); Pipeline(v, n0) [un-evict] once more:", claimLines(ssn))
		show(t, "C14 claim oracle:", oracle())
		stmt.Discard()
		show(t, "after Discard():", claimLines(ssn))
		show(t, "C14 claim oracle:", oracle())
	})
}

// GPU-class claims: a node without device-plugin GPUs whose GPUs are two DRA devices of a GPU driver; pod v runs
// there with a generated claim of the GPU class for one device, pod w is pending with a claim for two. The probe
// prints what the scheduler charges (node, workload) and what the C14 oracles recompute, through evict / un-evict /
// discard and through allocate / discard. On the unchanged tree everything agrees.
func TestDRAProbeGpuClassClaims(t *testing.T) {
	p := newProbe(map[string]int{})
	mkGpuClaim := func(pod string, count int64, a *resourceapi.AllocationResult, reserved bool) {
		c := &resourceapi.ResourceClaim{ObjectMeta: metav1.ObjectMeta{Name: pod + "-gpu", Namespace: "ns", UID: types.UID("claim-" + pod + "-gpu"),
			OwnerReferences: []metav1.OwnerReference{{APIVersion: "v1", Kind: "Pod", Name: pod, UID: types.UID("uid-" + pod), Controller: ptr.To(true)}}},
			Spec: resourceapi.ResourceClaimSpec{Devices: resourceapi.DeviceClaim{Requests: []resourceapi.DeviceRequest{{Name: "req",
				Exactly: &resourceapi.ExactDeviceRequest{DeviceClassName: gen.DRAGpuClass, AllocationMode: resourceapi.DeviceAllocationModeExactCount, Count: count}}}}}}
		c.Status.Allocation = a
		if reserved {
			c.Status.ReservedFor = []resourceapi.ResourceClaimConsumerReference{{Resource: "pods", Name: pod, UID: types.UID("uid-" + pod)}}
		}
		p.c.Objects.ResourceClaims = append(p.c.Objects.ResourceClaims, c)
	}
	alloc := v1.ResourceList{v1.ResourceCPU: resource.MustParse("16"), v1.ResourceMemory: resource.MustParse("64Gi"), v1.ResourcePods: resource.MustParse("110")}
	p.c.Objects.Nodes = append(p.c.Objects.Nodes, &v1.Node{ObjectMeta: metav1.ObjectMeta{Name: "n0", UID: "node-n0", Labels: map[string]string{"kubernetes.io/hostname": "n0"}},
		Status: v1.NodeStatus{Allocatable: alloc, Capacity: alloc, Conditions: []v1.NodeCondition{{Type: v1.NodeReady, Status: v1.ConditionTrue}}}})
	p.c.Objects.ResourceSlices = append(p.c.Objects.ResourceSlices, &resourceapi.ResourceSlice{ObjectMeta: metav1.ObjectMeta{Name: "gpuslice-n0"},
		Spec: resourceapi.ResourceSliceSpec{Driver: gen.DRAGpuDriver, NodeName: ptr.To("n0"), Pool: resourceapi.ResourcePool{Name: "n0", Generation: 1, ResourceSliceCount: 1},
			Devices: []resourceapi.Device{{Name: "g0"}, {Name: "g1"}, {Name: "g2"}}}})
	p.c.Objects.DeviceClasses = append(p.c.Objects.DeviceClasses, &resourceapi.DeviceClass{ObjectMeta: metav1.ObjectMeta{Name: gen.DRAGpuClass}})
	p.group("pg-v", 1)
	p.group("pg-w", 1)
	va := &resourceapi.AllocationResult{NodeSelector: &v1.NodeSelector{NodeSelectorTerms: []v1.NodeSelectorTerm{{MatchFields: []v1.NodeSelectorRequirement{{Key: "metadata.name", Operator: v1.NodeSelectorOpIn, Values: []string{"n0"}}}}}}}
	va.Devices.Results = []resourceapi.DeviceRequestAllocationResult{{Request: "req", Driver: gen.DRAGpuDriver, Pool: "n0", Device: "g0"}}
	mkGpuClaim("v", 1, va, true)
	mkGpuClaim("w", 2, nil, false)
	p.pod("v", "pg-v", "", "n0", true, nil)
	p.pod("w", "pg-w", "", "", false, nil)
	for _, pod := range p.c.Objects.Pods {
		pod.Spec.ResourceClaims = []v1.PodResourceClaim{{Name: gen.DRAGpuPodClaimName, ResourceClaimTemplateName: ptr.To("tmpl")}}
		pod.Status.ResourceClaimStatuses = []v1.PodResourceClaimStatus{{Name: gen.DRAGpuPodClaimName, ResourceClaimName: ptr.To(pod.Name + "-gpu")}}
	}
	gpuLines := func(ssn *framework.Session) []string {
		var out []string
		ni := ssn.ClusterInfo.Nodes["n0"]
		out = append(out, fmt.Sprintf("node n0 gpus: allocatable=%v idle=%v used=%v releasing=%v hasDRAGPUs=%v", ni.Allocatable.GPUs(), ni.Idle.GPUs(), ni.Used.GPUs(), ni.Releasing.GPUs(), ni.HasDRAGPUs))
		for _, id := range []string{"pg-v", "pg-w"} {
			j := ssn.ClusterInfo.PodGroupInfos[common_info.PodGroupID(id)]
			for _, ti := range j.GetAllPodsMap() {
				out = append(out, fmt.Sprintf("job %s allocated gpus=%v; pod %s %v request: gpus=%v draGpus=%d", id, j.Allocated.GPUs(), ti.Name, ti.Status, ti.ResReq.GPUs(), ti.ResReq.GetDraGpusCount()))
			}
		}
		return out
	}
	oracles := func(ssn *framework.Session) []string {
		st := map[string]int{}
		out := append(mon.CheckNodes(ssn, nil, st), mon.CheckJobs(ssn, st)...)
		out = append(out, mon.CheckDraGpuRequests(ssn, st)...)
		out = append(out, mon.CheckClaims(ssn, st)...)
		out = append(out, fmt.Sprintf("(node capacity checks %d, closed-form gpu checks %d, node rebuilds %d, request comparisons %d)",
			st["dra_gpu_node_capacity_checks"], st["dra_gpu_node_closed_form_checks"], st["dra_gpu_node_rebuilds"], st["dra_gpu_request_comparisons"]))
		return out
	}
	p.run(t, func(ssn *framework.Session, task func(string, string) *pod_info.PodInfo) {
		v, w := task("pg-v", "v"), task("pg-w", "w")
		show(t, "at session open:", gpuLines(ssn))
		show(t, "C14 oracles:", oracles(ssn))
		stmt := ssn.Statement()
		_ = stmt.Evict(v, "probe", eviction_info.EvictionMetadata{})
		show(t, "after Evict(v):", gpuLines(ssn))
		show(t, "C14 oracles:", oracles(ssn))
		_ = stmt.Pipeline(w, "n0", false)
		show(t, "after Pipeline(w, n0):", gpuLines(ssn))
		show(t, "C14 oracles:", oracles(ssn))
		stmt.Discard()
		show(t, "after Discard():", gpuLines(ssn))
		show(t, "C14 oracles:", oracles(ssn))
		stmt2 := ssn.Statement()
		_ = stmt2.Allocate(w, "n0")
		show(t, "after Allocate(w, n0):", gpuLines(ssn))
		show(t, "C14 oracles:", oracles(ssn))
		stmt2.Discard()
		show(t, "after Discard():", gpuLines(ssn))
		show(t, "C14 oracles:", oracles(ssn))
	})
}
