// Package checks wires generators, the real-code runners and the oracles into run.Check values.
package checks

import (
	"crypto/sha256"
	"encoding/hex"
	"encoding/json"
	"fmt"
	"os"
	"strings"
	"time"

	"github.com/NVIDIA/KAI-scheduler/pkg/scheduler/framework"

	"verif/harness/internal/gen"
	"verif/harness/internal/mon"
	"verif/harness/internal/oracle"
	"verif/harness/internal/run"
	"verif/harness/internal/sched"
	"verif/harness/internal/spec"
	"verif/harness/internal/store"
	"verif/harness/internal/world"
)

// CycleOracle checks one cycle.
type CycleOracle func(m *oracle.Model, res *sched.CycleResult, after *spec.Objects, c *spec.Case, st *oracle.Stats) []run.Violation

// SchedCheck is a scheduler-side check: generated clusters, real cycles, offline oracle per cycle.
type SchedCheck struct {
	Id         string
	Profile    string
	Quick      int
	Thorough   int
	Oracle     CycleOracle
	RuleText   string
	Assume     []string
	SkipFaulty bool                                    // do not evaluate the oracle on cycles of cases with injected faults
	Mutate     func(c *spec.Case, seed int64, idx int) // optional post-processing of the generated case
	// PodGroupLag: every eighth case runs with a persistent scheduler cache whose PodGroup informer lags one cycle
	PodGroupLag bool
	// Gen, if set, may supply the case of an index from another generator (nil = the profile's generator)
	Gen         func(seed int64, idx int, tier string) *spec.Case
	Hooks       func(c *spec.Case, sink *[]run.Violation, st *oracle.Stats) sched.Hooks
	AfterCase   func(c *spec.Case, hist []CycleRecord, st *oracle.Stats) []run.Violation
	LevelName   string
	TimeoutCase time.Duration
	// NewMonitor, if set, attaches an online monitor (internal/mon) to every cycle; its findings for
	// property Id become violations and its statistics are merged into the counters.
	NewMonitor func() *mon.Monitor
	// NonTrivialFromStats decides non-triviality from the merged counters (optional).
	NonTrivialFromStats func(counters map[string]int) bool
	// StopCase, if set, is asked after every cycle whether the remaining cycles can be skipped.
	StopCase func() bool
	// CaseVerdict, if set, may turn a case without violations into an inconclusive one (returns a note).
	CaseVerdict func() string
	// PanicIsViolation: a panic inside a cycle refutes this property (C10); otherwise the case is inconclusive.
	PanicIsViolation bool
}

// CycleRecord is kept for replay files and history oracles.
type CycleRecord struct {
	Cycle  int           `json:"cycle"`
	Events []sched.Event `json:"events"`
	Panic  string        `json:"panic,omitempty"`
	World  []string      `json:"world,omitempty"`
}

func (s *SchedCheck) ID() string { return s.Id }
func (s *SchedCheck) Level() string {
	if s.LevelName != "" {
		return s.LevelName
	}
	return "exploration"
}
func (s *SchedCheck) NumCases(tier string) int {
	if tier == "thorough" {
		return s.Thorough
	}
	return s.Quick
}
func (s *SchedCheck) Rule() string {
	return strings.Replace(s.RuleText, "profile %q", fmt.Sprintf("profile %q", s.Profile), 1)
}
func (s *SchedCheck) Assumptions() []string { return s.Assume }
func (s *SchedCheck) CaseTimeout() time.Duration {
	if s.TimeoutCase > 0 {
		return s.TimeoutCase
	}
	return 120 * time.Second
}
func (s *SchedCheck) CrashIsViolation() bool { return true }

// HangIsViolation: only for the totality property (C10) does a confirmed hang or a process-level crash of the
// scheduler refute the property; for the others the case is inconclusive.
func (s *SchedCheck) HangIsViolation() bool { return s.PanicIsViolation }

func hashCase(c *spec.Case) string {
	b, _ := json.Marshal(struct {
		O spec.Objects
		C spec.SchedConfig
		F spec.Faults
	}{c.Objects, c.Config, c.Faults})
	h := sha256.Sum256(b)
	return hex.EncodeToString(h[:8])
}

// Replay is the replay file format of scheduler-side checks.
type Replay struct {
	Case       *spec.Case      `json:"case"`
	Cycles     []CycleRecord   `json:"cycles"`
	Violations []run.Violation `json:"violations"`
}

func (s *SchedCheck) RunCase(seed int64, index int, tier string, env *run.Env) run.CaseResult {
	var c *spec.Case
	if s.Gen != nil {
		c = s.Gen(seed, index, tier)
	}
	if c == nil {
		c = gen.Generate(s.Profile, seed, index, tier)
	}
	c.Property = s.Id
	if s.Mutate != nil {
		s.Mutate(c, seed, index)
	}
	return s.RunGenerated(c, env)
}

// RunGenerated runs a given case (also used by replay).
func (s *SchedCheck) RunGenerated(c *spec.Case, env *run.Env) run.CaseResult {
	res := run.CaseResult{Verdict: run.Held, Hash: hashCase(c)}
	_ = c.Save(fmt.Sprintf("%s/case-%s-%d.json", env.WorkDir, s.Id, c.Index)) // input on disk before running
	st := store.New()
	initial, arrivals := c.Objects.SplitArrivals()
	if err := st.Add(initial...); err != nil {
		res.Verdict = run.Inconclusive
		res.Note = "store add: " + err.Error()
		return res
	}
	st.GracefulPods.Store(true)
	stats := oracle.NewStats()
	var viols []run.Violation
	var hooks sched.Hooks
	if s.Hooks != nil {
		hooks = s.Hooks(c, &viols, stats)
	}
	var monitor *mon.Monitor
	if s.NewMonitor != nil {
		monitor = s.NewMonitor()
		mon.Cur = monitor
		mon.DRAEnabled = c.Objects.HasDRA()
		hooks = monitor.Hooks()
		defer func() { mon.Cur, mon.DRAEnabled = nil, false }()
	}
	rng := gen.NewRand(c.Seed, c.Index, 2)
	r, err := sched.NewRunner(st, c, rng, hooks)
	if err != nil {
		res.Verdict = run.Inconclusive
		res.Note = "runner: " + err.Error()
		return res
	}
	// every fourth case keeps one scheduler cache (informers, status updater and whatever the scheduler keeps in
	// memory between cycles) for all its cycles, like the real process; the others get a fresh cache per cycle
	r.Persistent = c.Index%4 == 3
	// half of those (checks that ask for it) with a PodGroup informer that lags one cycle behind (sched.Runner.PodGroupLag)
	r.PodGroupLag = s.PodGroupLag && c.Index%8 == 7
	if r.PodGroupLag {
		stats.Inc("cases_with_lagging_podgroup_informer")
		defer func() { stats.Add("podgroup_events_held_back", int(st.HeldPodGroupEvents())) }()
	}
	defer r.Close()
	notSynced := 0
	w := world.New(st, gen.NewRand(c.Seed, c.Index, 3), c.World)
	faulty := c.Faults.PBindRequestCreateFails > 0 || c.Faults.PPodDeleteFails > 0 || c.Faults.PEvictCallFails > 0
	var hist []CycleRecord
	panicked := false
	if c.Objects.HasDRA() { // DRA evidence counters
		stats.Inc("dra_cases")
		stats.Add("dra_claims_generated", len(c.Objects.ResourceClaims))
		stats.Add("dra_devices_generated", countDevices(&c.Objects))
		if n := countGpuClaims(&c.Objects); n > 0 { // GPU-class claims (gen/dra_gpu.go)
			stats.Inc("dra_gpu_cases")
			stats.Add("dra_gpu_claims_generated", n)
		}
	}
	for cyc := 1; cyc <= c.Cycles; cyc++ {
		before := st.ReadAll()
		cr := r.Cycle()
		draEventCounters(before, cr.Events, stats)
		if cr.NotSynced {
			notSynced++
		}
		after := st.ReadAll()
		rec := CycleRecord{Cycle: cyc, Events: cr.Events, Panic: cr.Panic}
		stats.Inc("cycles")
		stats.Add("events", len(cr.Events))
		if cr.Panic != "" {
			if s.PanicIsViolation {
				viols = append(viols, oracle.Viol(s.Id, "sut-panic", panicFrame(cr.Panic), cyc, "scheduler cycle panicked: %s", cr.Panic))
			} else {
				// a panic refutes C10 (checked there); here the cycle's decisions so far are still judged and the case
				// is reported as inconclusive
				stats.Inc("sut_panics")
				panicked = true
			}
		}
		if cr.OpenErr != "" {
			stats.Inc("open_session_errors")
		}
		if s.Oracle != nil && !(s.SkipFaulty && faulty) {
			m := oracle.NewModel(&c.Config, before)
			viols = append(viols, s.Oracle(m, cr, after, c, stats)...)
		}
		w.Step()
		rec.World = w.Log
		if late := arrivals[cyc+1]; len(late) > 0 {
			// workloads submitted between two cycles (spec.ArriveAnno)
			if err := st.Add(late...); err != nil {
				res.Verdict = run.Inconclusive
				res.Note = "arrival: " + err.Error()
				return res
			}
			stats.Add("arrived_objects", len(late))
			rec.World = append(append([]string{}, rec.World...), fmt.Sprintf("%d objects of arriving workloads submitted", len(late)))
		}
		hist = append(hist, rec)
		if cr.Panic != "" {
			break
		}
		if s.StopCase != nil && s.StopCase() {
			break
		}
	}
	if w.ClaimWrites > 0 {
		stats.Add("dra_world_claim_status_writes", w.ClaimWrites)
	}
	if s.AfterCase != nil {
		viols = append(viols, s.AfterCase(c, hist, stats)...)
	}
	if monitor != nil {
		for _, f := range monitor.Findings {
			if f.Prop == s.Id {
				viols = append(viols, run.Violation{Property: f.Prop, Oracle: f.Oracle, Sig: f.Sig, Msg: f.Msg})
			} else {
				stats.Inc("other_property_findings_" + f.Prop)
			}
		}
		for k, v := range monitor.Stats {
			stats.Add(k, v)
		}
	}
	if s.NonTrivialFromStats != nil && s.NonTrivialFromStats(stats.Counters) {
		stats.NonTrivial = true
	}
	res.Counters = stats.Counters
	res.NonTrivial = stats.NonTrivial
	if r.Persistent {
		stats.Inc("cases_with_persistent_scheduler_cache")
	}
	if notSynced > 0 && len(viols) == 0 {
		res.Verdict = run.Inconclusive
		res.Note = fmt.Sprintf("persistent scheduler cache did not catch up with the store before %d cycle(s)", notSynced)
	}
	if panicked && len(viols) == 0 {
		res.Verdict = run.Inconclusive
		res.Note = "scheduler cycle panicked (see C10)"
	}
	if s.CaseVerdict != nil && len(viols) == 0 && res.Verdict == run.Held {
		if note := s.CaseVerdict(); note != "" {
			res.Verdict = run.Inconclusive
			res.Note = note
		}
	}
	if len(viols) > 0 {
		res.Verdict = run.Violated
		res.Violations = viols
		res.Replay = env.SaveReplay(s.Id, c.Seed, c.Index, Replay{Case: c, Cycles: hist, Violations: viols})
	}
	res.Sample = sampleOf(c, hist)
	return res
}

func countGpuClaims(o *spec.Objects) int {
	n := 0
	for _, c := range o.ResourceClaims {
		for _, r := range c.Spec.Devices.Requests {
			if r.Exactly != nil && strings.Contains(strings.ToLower(r.Exactly.DeviceClassName), "gpu") {
				n++
				break
			}
		}
	}
	return n
}

func countDevices(o *spec.Objects) int {
	n := 0
	for _, s := range o.ResourceSlices {
		n += len(s.Spec.Devices)
	}
	return n
}

// draEventCounters counts what the cycle decided about pods that use resource claims.
func draEventCounters(before *spec.Objects, events []sched.Event, st *oracle.Stats) {
	if !before.HasDRA() {
		return
	}
	claimPods := map[string]bool{}
	for _, p := range before.Pods {
		if len(p.Spec.ResourceClaims) > 0 {
			claimPods[p.Namespace+"/"+p.Name] = true
		}
	}
	for i := range events {
		e := &events[i]
		if !claimPods[e.Key()] || e.Err != "" {
			continue
		}
		switch e.Kind {
		case "bind":
			st.Inc("dra_binds_of_claim_pods")
			for _, ca := range e.Claims {
				if len(ca.Devices) > 0 {
					st.Inc("dra_binds_with_claim_allocations")
					break
				}
			}
		case "evict":
			st.Inc("dra_evictions_of_claim_pods")
		case "pipeline":
			st.Inc("dra_nominations_of_claim_pods")
		}
	}
}

// panicFrame extracts the innermost KAI-scheduler frame below the panic from a stack trace.
func panicFrame(stack string) string {
	lines := strings.Split(stack, "\n")
	seenPanic := false
	for _, l := range lines {
		if strings.HasPrefix(l, "panic(") {
			seenPanic = true
			continue
		}
		if seenPanic && strings.HasPrefix(l, "github.com/NVIDIA/KAI-scheduler/pkg/") {
			fn := l
			if i := strings.LastIndex(fn, "("); i > 0 {
				fn = fn[:i]
			}
			parts := strings.Split(fn, "/")
			return parts[len(parts)-1]
		}
	}
	return firstLine(stack)
}

func firstLine(s string) string {
	for i, ch := range s {
		if ch == '\n' {
			return s[:i]
		}
	}
	return s
}

// sampleOf condenses a case for the evidence file.
func sampleOf(c *spec.Case, hist []CycleRecord) any {
	type ev struct {
		Cycle  int    `json:"cycle"`
		Action string `json:"action"`
		Kind   string `json:"kind"`
		Pod    string `json:"pod"`
		Node   string `json:"node,omitempty"`
		Err    string `json:"err,omitempty"`
	}
	var evs []ev
	for _, h := range hist {
		for _, e := range h.Events {
			if len(evs) < 40 {
				evs = append(evs, ev{h.Cycle, e.Action, e.Kind, e.Pod, e.Node, e.Err})
			}
		}
	}
	return map[string]any{"seed": c.Seed, "index": c.Index, "profile": c.Profile, "nodes": len(c.Objects.Nodes), "queues": len(c.Objects.Queues),
		"podGroups": len(c.Objects.PodGroups), "pods": len(c.Objects.Pods), "bindRequests": len(c.Objects.BindRequests),
		"actions": c.Config.Actions, "cycles": c.Cycles, "faults": c.Faults, "events": evs}
}

var _ = framework.OpenSession

// Replay re-runs the case stored in a replay file.
func (s *SchedCheck) Replay(path string, env *run.Env) run.CaseResult {
	b, err := os.ReadFile(path)
	if err != nil {
		return run.CaseResult{Verdict: run.Inconclusive, Note: err.Error()}
	}
	var rp Replay
	if err := json.Unmarshal(b, &rp); err != nil || rp.Case == nil {
		return run.CaseResult{Verdict: run.Inconclusive, Note: "bad replay file"}
	}
	_ = os.MkdirAll(env.WorkDir, 0o755)
	return s.RunGenerated(rp.Case, env)
}
