package checks

import (
	"fmt"
	"github.com/NVIDIA/KAI-scheduler/pkg/scheduler/framework"
	rs "github.com/NVIDIA/KAI-scheduler/pkg/scheduler/plugins/proportion/resource_share"
	"strings"

	"time"

	"verif/harness/internal/gen"
	"verif/harness/internal/mon"
	"verif/harness/internal/oracle"
	"verif/harness/internal/run"
	"verif/harness/internal/sched"
	"verif/harness/internal/spec"
)

func cyc(f func(m *oracle.Model, events []sched.Event, cycle int, st *oracle.Stats) []run.Violation) CycleOracle {
	return func(m *oracle.Model, res *sched.CycleResult, after *spec.Objects, c *spec.Case, st *oracle.Stats) []run.Violation {
		return f(m, res.Events, res.Cycle, st)
	}
}

// cycNoFailedCalls evaluates the oracle only on cycles in which no Bind/Evict call returned an error
// (for properties that do not quantify over API failures).
func cycNoFailedCalls(f func(m *oracle.Model, events []sched.Event, cycle int, st *oracle.Stats) []run.Violation) CycleOracle {
	return func(m *oracle.Model, res *sched.CycleResult, after *spec.Objects, c *spec.Case, st *oracle.Stats) []run.Violation {
		for i := range res.Events {
			if res.Events[i].Err != "" {
				st.Inc("cycles_skipped_failed_api_call")
				return nil
			}
		}
		return f(m, res.Events, res.Cycle, st)
	}
}

const genRule = "clusters drawn from the PCG stream (VERIF_SEED, case index) by internal/gen profile %q; " +
	"real cache.New+OpenSession+actions+CloseSession per cycle on the shared in-memory store; world model applies decisions between cycles. "

// registerSched registers the scheduler-side checks.
func registerSched() {
	// every fourth case of C01 and C02 is about multi-device fraction requests beside shared, idle and releasing devices
	// on 1-2 nodes of 2-4 devices, GPU spread in 60% of the cases: half of them from the "sharing" profile of the
	// generic generator, half from gen.Sharing, which gives every device a role
	sharingShare := func(profile string) func(seed int64, idx int, tier string) *spec.Case {
		return func(seed int64, idx int, tier string) *spec.Case {
			if idx%8 == 3 {
				return gen.Generate("sharing", seed, idx, tier)
			}
			if idx%8 == 7 {
				return gen.Sharing(seed, idx, tier)
			}
			return gen.Generate(profile, seed, idx, tier)
		}
	}
	run.Register(&SchedCheck{Id: "C01", PodGroupLag: true, Profile: "tight", Quick: 1000, Thorough: 8000, Gen: sharingShare("tight"),
		Oracle: func(m *oracle.Model, res *sched.CycleResult, after *spec.Objects, c *spec.Case, st *oracle.Stats) []run.Violation {
			out := oracle.CheckC01(m, res.Events, res.Cycle, st)
			// DRA: claimed devices are a node resource too (oracle/dra.go)
			return append(out, oracle.CheckClaimedDevices(m, res.Events, after, res.Cycle, st)...)
		},
		RuleText: genRule + "Non-trivial: a case with >=1 successful Bind onto a node that held a terminating or same-cycle-evicted pod, or that ended within 25% of full in a requested resource. Distinct = distinct hash of (objects, config, faults). " +
			"About 30% of the cases carry Dynamic Resource Allocation objects (DeviceClass, node-local ResourceSlices with 1-4 devices, ResourceClaims of 1-2 devices, see gen/dra.go); clause claimed-device-conservation: over the store before the cycle and the successful Binds, no device is allocated to two claims, every allocated device belongs to a slice of the selected node, an allocated claim keeps its devices and its pod goes to their node.",
		Assume: []string{"CSI capacity is not checked", "pod slots of future reservation pods are not charged to the bind that opens a GPU group",
			"DRA devices are node-local, of one non-GPU device class, requested by exact count; device taints, selectors, shared/consumable capacity and GPU-class claims are not generated"}})
	run.Register(&SchedCheck{Id: "C02", PodGroupLag: true, Profile: "fractions", Quick: 1000, Thorough: 8000, Oracle: cyc(oracle.CheckC02), Gen: sharingShare("fractions"),
		RuleText: genRule + "Non-trivial: a case that binds a fractional pod into a group that already has a sharer, binds a multi-fraction pod, or binds on a node with <=1 free GPU device.",
		Assume:   []string{"one accounting unit (1/deviceMemory) of slack per sharer", "device identity of whole-GPU pods is not observable; checked as whole+shared<=count"}})
	run.Register(&SchedCheck{Id: "C03", Profile: "gangs", Quick: 1000, Thorough: 8000, Oracle: cyc(oracle.CheckC03), SkipFaulty: true, PodGroupLag: true,
		RuleText: genRule + "Non-trivial: a case in which a gang with total minimum >= 2 received a bind, nomination or eviction. Evaluated only on cases without injected API write failures.",
		Assume:   []string{"pods whose sub-group label names no leaf sub-group are ignored (the scheduler ignores them too)", "the eviction clause is judged only for gangs that were at or above minimum in every pod set before the cycle"}})
	run.Register(&SchedCheck{Id: "C04", PodGroupLag: true, Profile: "constraints", Quick: 1000, Thorough: 8000, Oracle: cycNoFailedCalls(oracle.CheckC04),
		RuleText: genRule + "Non-trivial: a case with a bind/nomination of a pod whose hard constraints exclude at least one node of the pool, or that carries inter-pod (anti-)affinity terms, or whose group/sub-group has a required topology level.",
		Assume: []string{"cycles in which a Bind / Evict / BindRequest-create call failed are not judged (the property quantifies over cluster states; what a statement does after a failed call is C13's subject)",
			"terminating, same-cycle-evicted and merely nominated pods are don't-care for inter-pod terms (either reading accepted)", "only Ready/unschedulable node conditions are demanded",
			"topology: labels are demanded for the required level and coarser levels only; already active pods pin the domain only if they lie in one domain"}})
	run.Register(&SchedCheck{Id: "C06", Profile: "victims", Quick: 1500, Thorough: 8000, PodGroupLag: true,
		Mutate: func(c *spec.Case, seed int64, idx int) { oracle.ResetC06() },
		Gen: func(seed int64, idx int, tier string) *spec.Case {
			if idx%3 == 1 { // a third of the cases: department-contention clusters with min-runtimes and workload controllers
				// every other one of them with a freshly started elastic workload in protected queues (ElasticFocus)
				// and those that keep one scheduler cache (idx%4 == 3; half of them with a lagging PodGroup informer) with work
				// that starts in cycle 1 and reclaimers that arrive afterwards (LateReclaimers)
				return gen.ContentionWith(seed, idx, tier, gen.ContentionOpts{MinRuntime: true, EarlyRecreate: true, ElasticFocus: idx%2 == 0, LateReclaimers: idx%4 == 3})
			}
			return nil
		},
		Oracle: func(m *oracle.Model, res *sched.CycleResult, after *spec.Objects, c *spec.Case, st *oracle.Stats) []run.Violation {
			return oracle.CheckC06(m, res.Events, res.Cycle, time.Now(), st)
		},
		RuleText: genRule + "Non-trivial: a case with at least one eviction by reclaim, preempt or consolidation.",
		Assume: []string{"min-runtime verdicts are taken only when the workload's start time is more than 5 minutes away from the protection boundary (generator uses now-10h / now-1m with 1h min-runtimes)",
			"for consolidation the statement does not say which min-runtime applies: a victim counts as protected only if it is inside both the preempt and the reclaim min-runtime",
			"the commit-together clauses are skipped for an action in which a Bind/Evict call failed"}})
	var lasso *oracle.Lasso
	var lassoSt *oracle.Stats
	const c15Cycles = 24
	run.Register(&SchedCheck{Id: "C15", Profile: "closed", Quick: 1600, Thorough: 24000, TimeoutCase: 180 * time.Second,
		Gen: func(seed int64, idx int, tier string) *spec.Case {
			if idx%3 == 1 { // a third of the closed systems are department-contention clusters (gen.Contention) ...
				if (idx/3)%4 == 3 { // ... a quarter of those clusters with scattered free devices (gen.Fragmented)
					return gen.Fragmented(seed, idx, tier)
				}
				return gen.Contention(seed, idx, tier)
			}
			return nil
		},
		Mutate: func(c *spec.Case, seed int64, idx int) {
			lasso = &oracle.Lasso{}
			c.Cycles = c15Cycles
			if c.Meta["tier"] == "thorough" {
				c.Cycles = 2 * c15Cycles
			}
		},
		Oracle: func(m *oracle.Model, res *sched.CycleResult, after *spec.Objects, c *spec.Case, st *oracle.Stats) []run.Violation {
			if lasso == nil { // replay
				lasso = &oracle.Lasso{}
			}
			lassoSt = st
			return lasso.Step(m, res.Events, res.Cycle, st)
		},
		StopCase: func() bool { return lasso.Found || lasso.Quiet >= 2 },
		CaseVerdict: func() string {
			defer func() { lasso = nil }()
			if n := len(lasso.States); lassoSt != nil && lasso.StillEvicting(n) {
				switch {
				case n <= 4:
					lassoSt.Inc("evicting_cases_settled_within_4_cycles")
				case n <= 10:
					lassoSt.Inc("evicting_cases_settled_within_10_cycles")
				default:
					lassoSt.Inc("evicting_cases_longer_than_10_cycles")
				}
			}
			if lasso.Quiet < 2 && lasso.StillEvicting(4) {
				return fmt.Sprintf("still evicting after %d cycles without returning to a visited state", len(lasso.States))
			}
			return ""
		},
		NonTrivialFromStats: func(c map[string]int) bool { return c["evictions"] > 0 },
		RuleText:            genRule + "Closed system: evicted pods are re-created pending (same logical pod, new name), binds complete between cycles, no min-runtime, no API faults. Canonical state before every cycle = per (pod group, pod set) the multiset of placements (node + co-sharers of each GPU device | pending). Violation: a canonical state recurs with >= 1 eviction in between. Held: two consecutive cycles without any decision (fixpoint) or the cycle budget (24, thorough 48) ends without evictions in the last 4 cycles. Inconclusive: budget exhausted while still evicting without recurrence. Non-trivial: a case with >= 1 eviction. About 30% of the generated (non-contention) closed systems carry Dynamic Resource Allocation objects (gen/dra.go); a re-created pod refers to the same claim (template-style claims are re-generated for it); device identity is not part of the canonical state.",
		Assume: []string{"bounded restatement: no lasso within the cycle budget from the generated initial states; says nothing about longer periods",
			"identical pods of one pod set are interchangeable in the canonical state"}})
	var c07in *oracle.C07Input
	run.Register(&SchedCheck{Id: "C07", PodGroupLag: true, Profile: "fairness", Quick: 2000, Thorough: 12000,
		Gen: func(seed int64, idx int, tier string) *spec.Case {
			if idx%3 == 1 { // a third of the cases: department-contention clusters (uneven trees, reclaim in every case)
				// (gen.ContentionOpts.Surplus - quotas adding up to less than the capacity - was tried here and dropped again:
				// it did not raise the density of C07-a and lost the one case that showed C07-c)
				c := gen.Contention(seed, idx, tier)
				c.World.Closed = idx%2 == 0 // half of them as open systems (evicted pods are gone)
				return c
			}
			return nil
		},
		Hooks: func(c *spec.Case, sink *[]run.Violation, st *oracle.Stats) sched.Hooks {
			return sched.Hooks{AfterOpen: func(ssn *framework.Session, rc *sched.RecCache) {
				c07in = nil
				qs := mon.QueuesOf(sched.CurrentProportion)
				if qs == nil {
					return
				}
				in := &oracle.C07Input{Fair: map[string]oracle.Res{}, SchedAlloc: map[string]oracle.Res{}}
				for id, q := range qs {
					f, a := q.GetFairShare(), q.GetAllocatedShare()
					in.Fair[string(id)] = oracle.Res{GPU: f[rs.GpuResource], CPU: f[rs.CpuResource], Mem: f[rs.MemoryResource]}
					in.SchedAlloc[string(id)] = oracle.Res{GPU: a[rs.GpuResource], CPU: a[rs.CpuResource], Mem: a[rs.MemoryResource]}
				}
				c07in = in
			}}
		},
		Oracle: cycNoFailedCalls(func(m *oracle.Model, events []sched.Event, cycle int, st *oracle.Stats) []run.Violation {
			in := c07in
			c07in = nil
			return oracle.CheckC07(m, events, cycle, st, in)
		}),
		RuleText: genRule + "Every statement commit of the reclaim action is one decision: allocation per queue (requests of bound/binding/running non-terminating pods rolled up the tree, updated by every earlier event of the cycle) before and after the decision, deserved quota from the Queue specs, fair share as computed by the scheduler at session open (proportion hook). Clauses: no victim queue (lifted to the level where it diverges from the reclaimer) that was within deserved quota in every resource before its last victim was taken; reclaimer queue within fair share in the received resources; non-preemptible reclaimer within deserved quota at every level; no ancestor above fair share and at least as saturated as a sibling it took from (multiplier 1). Non-trivial: a case with >= 1 judged reclaim decision.",
		Assume: []string{"a decision is judged only if the harness' allocation model and the scheduler's own per-queue allocation agree at session open for every queue involved (disagreements are C14's business)",
			"a victim re-nominated in the same decision takes nothing from its queue", "equal saturation ratios are flagged only for cpu/memory or integral GPU allocations (float ties otherwise)",
			"cycles in which a Bind/Evict call failed are not judged"}})
	run.Register(&SchedCheck{Id: "C08", PodGroupLag: true, Profile: "limits", Quick: 1000, Thorough: 8000, Oracle: cycNoFailedCalls(oracle.CheckC08),
		RuleText: genRule + "Non-trivial: a case in which a placement ended within one pod request of a finite queue limit or (non-preemptible) of a finite deserved quota.",
		Assume: []string{"allocation model: requests of bound/binding/running non-terminating pods plus this cycle's binds and nominations minus evictions, rolled up the queue tree; terminating pods are not counted (weaker than the scheduler's own charge, hence sound)",
			"a queue already above its limit at cycle start is reported only if a decision raises it above the cycle-start value",
			"cycles in which a Bind/Evict call failed are not judged (the property does not quantify over API failures)",
			"with --full-hierarchy-fairness=false the queue tree is the flattened one the scheduler builds (top-level queues dropped)"}})
	run.Register(&SchedCheck{Id: "C16", Profile: "order", Quick: 1000, Thorough: 8000, Oracle: cyc(oracle.CheckC16), SkipFaulty: true,
		RuleText: genRule + "Clones = pod groups created by the generator from one template in one leaf queue (annotation verif/clone-class). Non-trivial: a case in which, among comparable clones (all pods pending, same preemptibility), one was placed by allocate and another was not.",
		Assume:   []string{"clones carry no inter-pod affinity and no topology constraint"}})
	run.Register(&SchedCheck{Id: "C14", PodGroupLag: true, Profile: "accounting", Quick: 800, Thorough: 6000,
		NewMonitor: func() *mon.Monitor { return mon.New(true, false) },
		NonTrivialFromStats: func(c map[string]int) bool {
			return c["allocate-event"]+c["deallocate-event"] >= 20 && c["event_status_Releasing"] > 0 && c["event_status_Pipelined"] > 0
		},
		RuleText: genRule + "Online monitor plugin (last plugin of the last tier): after every Allocate/Deallocate event of every action and solver simulation, after OpenSession and after each action, nodes (closed forms + rebuild with NewNodeInfo/AddTask), workloads, pod sets, queues and vector==structured are recomputed from the pods. Non-trivial: a case whose sessions saw >= 20 events including Releasing and Pipelined transitions. " +
			"About 35% of the cases carry Dynamic Resource Allocation objects (gen/dra.go) and run with the DRA feature gate on; oracle claim-accounting (mon/dra.go) compares, at the same points, the DRA manager's view (assume cache, in-flight allocations, the allocator's allocated-device set) with what the pods imply: a pod holding a place on a node holds its claims (allocated, reserved for it, devices on its node, the API object's devices while it is a consumer there), nobody else keeps a claim allocated, no device is in two claims, device set == union of the claims' devices.",
		Assume: []string{"claim-accounting: a really terminating or finished pod may still be a consumer; the claim of an in-flight BindRequest whose pod was evicted in the session is not judged (the manager cannot withdraw an in-flight allocation); devices are node-local and requested by exact count",
			"GPU-class claims (gen/dra_gpu.go, about 12-15% of the cases): on nodes without device-plugin GPUs a ResourceSlice of a GPU driver adds its devices to the node's GPU capacity, a generated (template) claim of a GPU device class adds its count to the pod's GPU request; the rule 'name contains gpu' is the scheduler's documented one and is restated by the oracle. Oracle dra-gpu-request recomputes every pod's DRA GPU count from its claims (API objects) and compares with PodInfo.ResReq and, for placed pods, AcceptedResource; node GPU capacity is recomputed from node object + slices; on such nodes the gpu field of Idle/Releasing is judged by the linear closed forms and by the rebuild (AddDRAGPUs as the snapshot does); workload and queue accounting charge DRA GPUs like whole GPUs. GPU claims referenced by name (they need a queue label), shared GPU claims and AllocationMode All are not generated",
			"whole-GPU Idle/Releasing are compared against a node rebuilt with the system's own constructor in snapshot order (reservation pods, non-pipelined, pipelined); skipped when a GPU group holds only pipelined pods (insertion order legitimately matters)",
			"queue Request is only checked implicitly (it is not updated by events)"}})
	run.Register(&SchedCheck{Id: "C13", PodGroupLag: true, Profile: "accounting", Quick: 800, Thorough: 6000,
		NewMonitor: func() *mon.Monitor { return mon.New(false, true) },
		NonTrivialFromStats: func(c map[string]int) bool {
			return c["discards_checked"]+c["rollbacks_checked"] >= 2 && c["commits_checked"] >= 1
		},
		RuleText: genRule + "Statement lifecycle hooks (build tag verif): canonical dump of the session before a statement's first operation and at every checkpoint, compared after Discard / Rollback; Cache calls of every Commit compared with the net effect of the valid operations. Non-trivial: a case with >= 2 judged discards/rollbacks and >= 1 judged commit. " +
			"About 35% of the cases carry Dynamic Resource Allocation objects (gen/dra.go); for them the dump also holds the scheduler's view of every resource claim (assume cache object overlaid with the allocation of an in-flight BindRequest: devices sorted, reservedFor sorted), the allocator's allocated-device set, and per pod the allocation it remembers for each claim (PodInfo.ResourceClaimInfo).",
		Assume: []string{"dump excludes tasksToAllocate caches, fit errors, topology scratch scores and GPUGroups of pods that are not on a node",
			"a discard/rollback is judged only if no other statement with pending operations was alive and no commit happened in between"}})
	run.Register(&SchedCheck{Id: "C10", Profile: "mixed", Quick: 1600, Thorough: 40000, PanicIsViolation: true, TimeoutCase: 10 * time.Second,
		// every fourth base case is a full cluster with pending work in starved queues (gen.Contention): the malformed
		// objects then also pass through victim selection and the scenario solvers of reclaim / preempt / consolidation
		Gen: func(seed int64, idx int, tier string) *spec.Case {
			if idx%4 == 1 {
				return gen.Contention(seed, idx, tier)
			}
			return gen.Generate("mixed", seed, idx, tier)
		},
		Mutate: func(c *spec.Case, seed int64, idx int) {
			r := gen.NewRand(seed, idx, 10)
			c.Faults = spec.Faults{}
			c.Cycles = 2
			n := 0
			if idx%8 != 0 { // every 8th case is well-formed (panics on valid input also refute the property)
				n = 1 + r.IntN(5)
			}
			c.Meta["hostile"] = gen.Hostile(c, r, n)
			gen.AddControl(c)
		},
		AfterCase: func(c *spec.Case, hist []CycleRecord, st *oracle.Stats) []run.Violation {
			var muts []string
			switch v := c.Meta["hostile"].(type) {
			case []string:
				muts = v
			case []any: // replay file
				for _, m := range v {
					muts = append(muts, fmt.Sprint(m))
				}
			}
			for _, m := range muts {
				st.Inc("mutation_" + m)
			}
			st.NonTrivial = len(muts) > 0
			bound := map[string]bool{}
			for _, h := range hist {
				if h.Panic != "" {
					return nil // reported as sut-panic
				}
				for _, e := range h.Events {
					if e.Kind == "bind" && (e.Pod == gen.ControlPod || e.Pod == gen.ControlPod2) && e.Err == "" && e.Node == gen.ControlNode {
						bound[e.Pod] = true
					}
				}
			}
			if bound[gen.ControlPod] && bound[gen.ControlPod2] {
				st.Inc("control_workload_bound")
				return nil
			}
			which := "first"
			if bound[gen.ControlPod] {
				which = "second"
			}
			return []run.Violation{oracle.Viol("C10", "control-workload-not-scheduled", strings.Join(muts, "+"), 0,
				"the %s healthy control workload (own queue %s, dedicated node %s) was not bound in %d cycles; malformed objects: %v", which, gen.ControlQueue, gen.ControlNode, len(hist), muts)}
		},
		RuleText: genRule + "Each case = a valid cluster + 1-5 malformed-object mutations (queue self-parent / cycles / missing parents / nil resources / absurd quotas, bad sub-group graphs, non-positive or huge minimums, pods without containers or pod group, garbage GPU annotations incl. NaN/Inf/overflow, nodes without labels / zero, negative or empty allocatable / garbage GPU labels, dangling BindRequests, empty topologies, missing priority classes) + two healthy control workloads (an older and a younger one) on their own queue and node. Oracle: no panic (in-process recover or worker crash), termination (10 s watchdog (~75x a normal cycle), a watchdog is confirmed by re-running the case alone with 40 s; a worker killed by the watchdog counts as a hang only if a goroutine is running inside KAI code), both control workloads bound within the 2 cycles. Every fourth base cluster is a full one with starved queues (gen.Contention) so that malformed objects also pass through victim selection and the scenario solvers. Non-trivial: a case with >= 1 mutation.",
		Assume:   []string{"a watchdog firing without a running KAI goroutine is inconclusive", "every 8th case carries no mutation (well-formed input)"}})
}
