// Package c09 is the runtime monitor of property C09 ("fair-share division obeys its documented
// contract"). It calls the production function resource_division.SetResourcesShare on generated
// sibling sets and on generated 2-3 level queue trees (emulating proportion.setFairShareForQueues)
// and checks eight algebraic / metamorphic laws on the FairShare values the real code produced.
package c09

import (
	"encoding/binary"
	"fmt"
	"hash/fnv"
	"math"
	"math/rand/v2"
	"sort"
	"time"

	v1 "k8s.io/api/core/v1"
	metav1 "k8s.io/apimachinery/pkg/apis/meta/v1"

	commonconstants "github.com/NVIDIA/KAI-scheduler/pkg/common/constants"
	"github.com/NVIDIA/KAI-scheduler/pkg/scheduler/api/common_info"
	"github.com/NVIDIA/KAI-scheduler/pkg/scheduler/api/queue_info"
	"github.com/NVIDIA/KAI-scheduler/pkg/scheduler/plugins/proportion/resource_division"
	rs "github.com/NVIDIA/KAI-scheduler/pkg/scheduler/plugins/proportion/resource_share"

	"verif/harness/internal/gen"
	"verif/harness/internal/run"
)

const (
	setsPerCase = 1000
	orders      = 5 // L8: number of independent builds+runs of the same sibling set
	maxReported = 6 // violations kept per case
)

// resource index -> production resource name, in the order of rs.AllResources.
var resNames = [3]rs.ResourceName{rs.CpuResource, rs.MemoryResource, rs.GpuResource}

// ---------------------------------------------------------------- input model

// RIn is the per-resource input of one queue (units: CPU milli-cores, memory bytes, GPU devices).
type RIn struct {
	Quota   float64 `json:"quota"`   // deserved; -1 = unlimited
	Limit   float64 `json:"limit"`   // max allowed; -1 = unlimited
	Weight  float64 `json:"weight"`  // over-quota weight
	Request float64 `json:"request"` //
	Usage   float64 `json:"usage"`   // normalised historical usage 0..1
}

// QIn is one queue of a sibling set.
type QIn struct {
	ID       string `json:"id"`
	Prio     int    `json:"prio"`
	Created  int64  `json:"created"` // seconds after a fixed epoch
	Res      [3]RIn `json:"res"`     // CPU, Memory, GPU
	Children []*QIn `json:"children,omitempty"`
}

// SetIn is a generated top-level sibling set.
type SetIn struct {
	K      float64    `json:"k"`
	Mode   string     `json:"mode"` // dyadic | decimal
	Total  [3]float64 `json:"total"`
	Queues []*QIn     `json:"queues"`
}

// ---------------------------------------------------------------- generator

type g struct {
	r      *rand.Rand
	dyadic bool
}

func (x *g) p(p float64) bool { return x.r.Float64() < p }
func (x *g) in(a, b int) int  { return a + x.r.IntN(b-a+1) }
func pickF(x *g, v []float64) float64 {
	return v[x.r.IntN(len(v))]
}

// val draws a quantity in [0,max]. Dyadic sets: multiples of 1/4 (half of them integers).
// Decimal sets: 3 decimals, 1 decimal or a full-precision float. Magnitudes >= 1e4 (milli-cores,
// bytes) are integer-valued in both modes, as they are in production.
func (x *g) val(max float64) float64 {
	v := x.r.Float64() * max
	if max >= 1e4 {
		if x.dyadic && max >= 1e8 && x.p(0.5) {
			return math.Round(v/1048576) * 1048576 // MiB
		}
		if !x.dyadic && max >= 1e8 && x.p(0.5) {
			return math.Round(v/1e6) * 1e6 // proportion multiplies memory quota by 1e6
		}
		return math.Round(v)
	}
	if x.dyadic {
		if x.p(0.5) {
			return math.Round(v)
		}
		return math.Round(v*4) / 4
	}
	q := x.r.Float64()
	switch {
	case q < 0.45:
		return math.Round(v*1000) / 1000
	case q < 0.7:
		return math.Round(v*10) / 10
	case q < 0.8:
		return math.Round(v)
	default:
		return v
	}
}

var magnitudes = [3][]float64{
	{4, 64, 1000, 64000, 512000},  // CPU milli-cores
	{8, 256, 1e6, 6.4e10, 1.1e12}, // memory bytes
	{1, 4, 8, 16, 64, 64, 512},    // GPU devices
}

var prioPool = []int{-5, 0, 1, 2, 10, 100}

type resKnobs struct {
	m         float64 // magnitude
	reqMax    float64
	quotaMax  float64
	usageMode int // 0 all zero, 1 small shared set, 2 arbitrary
}

func (x *g) weight() float64 {
	if x.p(0.2) {
		return 0
	}
	if x.dyadic {
		return pickF(x, []float64{1, 1, 1, 2, 2, 3, 4, 5, 6, 7, 8, 10, 0.5, 0.25, 1.5})
	}
	if x.p(0.15) {
		return x.r.Float64() * 5
	}
	return pickF(x, []float64{1, 1, 2, 3, 5, 7, 0.1, 0.2, 0.3, 0.7, 1.5, 2.5, 0.9, 49})
}

func (x *g) usage(mode int) float64 {
	switch mode {
	case 0:
		return 0
	case 1:
		return pickF(x, []float64{0, 0, 0.25, 0.5})
	default:
		if x.dyadic {
			return float64(x.r.IntN(5)) / 4
		}
		if x.p(0.5) {
			return math.Round(x.r.Float64()*100) / 100
		}
		return x.r.Float64()
	}
}

func (x *g) queueRes(k resKnobs, total float64) RIn {
	var in RIn
	switch q := x.r.Float64(); {
	case q < 0.10:
		in.Quota = -1
	case q < 0.35:
		in.Quota = 0
	case q < 0.45:
		in.Quota = total + x.val(k.m) // > total
	default:
		in.Quota = x.val(k.quotaMax)
	}
	switch q := x.r.Float64(); {
	case q < 0.5:
		in.Limit = -1
	case q < 0.55:
		in.Limit = 0
	case q < 0.7 && in.Quota > 0:
		in.Limit = x.val(in.Quota) // <= quota
	default:
		in.Limit = x.val(k.m * 1.5)
	}
	in.Weight = x.weight()
	if x.p(0.1) {
		in.Request = 0
	} else {
		in.Request = x.val(k.reqMax)
	}
	in.Usage = x.usage(k.usageMode)
	return in
}

func (x *g) knobs(res int, m float64, n int) resKnobs {
	k := resKnobs{m: m}
	k.reqMax = m * pickF(x, []float64{0.05, 0.3, 1, 1, 2})
	k.quotaMax = m * pickF(x, []float64{0, 0.2, 0.5, 1.5}) / float64(n)
	switch q := x.r.Float64(); {
	case q < 0.4:
		k.usageMode = 0
	case q < 0.7:
		k.usageMode = 1
	default:
		k.usageMode = 2
	}
	return k
}

func (x *g) siblings(prefix string, n int, totals [3]float64, mags [3]float64) []*QIn {
	np := x.in(1, 3)
	perm := x.r.Perm(len(prioPool))
	prios := make([]int, np)
	for i := range prios {
		prios[i] = prioPool[perm[i]]
	}
	sameTime := x.p(0.3)
	var kn [3]resKnobs
	for r := 0; r < 3; r++ {
		kn[r] = x.knobs(r, mags[r], n)
	}
	qs := make([]*QIn, n)
	for i := range qs {
		q := &QIn{ID: fmt.Sprintf("%s%d", prefix, i), Prio: prios[x.r.IntN(np)]}
		if !sameTime {
			q.Created = int64(x.r.IntN(4))
		}
		for r := 0; r < 3; r++ {
			q.Res[r] = x.queueRes(kn[r], totals[r])
		}
		qs[i] = q
	}
	return qs
}

// genSet draws one top-level sibling set, in a quarter of the draws with a 2-3 level tree below.
func genSet(r *rand.Rand) *SetIn {
	x := &g{r: r, dyadic: r.IntN(2) == 0}
	s := &SetIn{K: pickF(x, []float64{0, 0.5, 1, 10}), Mode: "decimal"}
	if x.dyadic {
		s.Mode = "dyadic"
	}
	var mags [3]float64
	for res := 0; res < 3; res++ {
		mags[res] = pickF(x, magnitudes[res])
		switch q := x.r.Float64(); {
		case q < 0.05:
			s.Total[res] = 0
		case q < 0.12 && mags[res] < 1e4:
			s.Total[res] = x.val(1) // fractional total below one unit
		default:
			s.Total[res] = x.val(mags[res])
		}
	}
	n := x.in(1, 8)
	s.Queues = x.siblings("q", n, s.Total, mags)
	if x.p(0.25) {
		for _, q := range s.Queues {
			if !x.p(0.5) {
				continue
			}
			x.children(q, mags, 2)
		}
	}
	return s
}

func (x *g) children(parent *QIn, mags [3]float64, depth int) {
	n := x.in(1, 4)
	var tot, cm [3]float64
	for r := 0; r < 3; r++ {
		cm[r] = mags[r]
		if mags[r] >= 4 {
			cm[r] = mags[r] / 2
		}
		tot[r] = cm[r] // only used for "quota > total" draws
	}
	parent.Children = x.siblings(parent.ID+".", n, tot, cm)
	if depth < 3 {
		for _, c := range parent.Children {
			if x.p(0.3) {
				x.children(c, cm, depth+1)
			}
		}
	}
	// proportion accumulates requests up the tree: a parent's request is the sum of its
	// descendants' requests. Keep that in 70% of the trees, leave an arbitrary value otherwise.
	if x.p(0.7) {
		for r := 0; r < 3; r++ {
			sum := 0.0
			for _, c := range parent.Children {
				sum += c.Res[r].Request
			}
			parent.Res[r].Request = sum
		}
	}
}

// ---------------------------------------------------------------- calling the production code

var epoch = time.Date(2024, 1, 1, 0, 0, 0, 0, time.UTC)

// build constructs rs.QueueAttributes the way proportion.createQueueResourceAttrs does and
// inserts them into the map in the order given by perm.
func build(qs []*QIn, perm []int) map[common_info.QueueID]*rs.QueueAttributes {
	m := make(map[common_info.QueueID]*rs.QueueAttributes, len(qs))
	for _, i := range perm {
		q := qs[i]
		qa := &rs.QueueAttributes{
			UID:               common_info.QueueID(q.ID),
			Name:              q.ID,
			CreationTimestamp: metav1.NewTime(epoch.Add(time.Duration(q.Created) * time.Second)),
			Priority:          q.Prio,
			QueueResourceShare: rs.QueueResourceShare{
				GPU: rs.ResourceShare{}, CPU: rs.ResourceShare{}, Memory: rs.ResourceShare{},
			},
		}
		for _, c := range q.Children {
			qa.ChildQueues = append(qa.ChildQueues, common_info.QueueID(c.ID))
		}
		for r, name := range resNames {
			in := q.Res[r]
			qa.SetQuotaResources(name, in.Quota, in.Limit, in.Weight)
			qa.ResourceShare(name).Request = in.Request
		}
		qa.SetResourceUsage(queue_info.QueueUsage{
			v1.ResourceCPU:                    q.Res[0].Usage,
			v1.ResourceMemory:                 q.Res[1].Usage,
			commonconstants.NvidiaGpuResource: q.Res[2].Usage,
		})
		m[qa.UID] = qa
	}
	return m
}

// divide runs the production division once and returns FairShare[queue][resource] plus, for the
// hierarchy, what QueueAttributes.GetFairShare() returns per queue (that is what proportion passes
// down as the children's total).
func divide(total [3]float64, k float64, qs []*QIn, perm []int) (fs [][3]float64, down []rs.ResourceQuantities) {
	m := build(qs, perm)
	tq := rs.ResourceQuantities{}
	for r, name := range resNames {
		tq[name] = total[r]
	}
	resource_division.SetResourcesShare(tq, k, m)
	fs = make([][3]float64, len(qs))
	down = make([]rs.ResourceQuantities, len(qs))
	for i, q := range qs {
		qa := m[common_info.QueueID(q.ID)]
		for r, name := range resNames {
			fs[i][r] = qa.ResourceShare(name).FairShare
		}
		down[i] = qa.GetFairShare()
	}
	return fs, down
}

// ---------------------------------------------------------------- the monitor

type finding struct {
	Sig   string       `json:"sig"`
	Msg   string       `json:"msg"`
	Path  string       `json:"path"`
	K     float64      `json:"k"`
	Total [3]float64   `json:"total"`
	Qs    []*QIn       `json:"queues"`
	FS    [][3]float64 `json:"fairShare"`
	Other [][3]float64 `json:"fairShareOtherOrder,omitempty"`
}

type mon struct {
	cnt     map[string]int
	finds   []finding
	sigSeen map[string]bool
	nonTriv bool
	sample  any
}

func (m *mon) inc(k string)        { m.cnt[k]++ }
func (m *mon) add(k string, n int) { m.cnt[k] += n }

func (m *mon) report(sig, msg, path string, k float64, total [3]float64, qs []*QIn, fs, other [][3]float64) {
	m.inc("violations_" + sig[:2])
	if m.sigSeen[sig] || len(m.finds) >= maxReported {
		return
	}
	m.sigSeen[sig] = true
	m.finds = append(m.finds, finding{Sig: sig, Msg: msg, Path: path, K: k, Total: total, Qs: stripChildren(qs), FS: fs, Other: other})
}

func stripChildren(qs []*QIn) []*QIn {
	out := make([]*QIn, len(qs))
	for i, q := range qs {
		c := *q
		c.Children = nil
		out[i] = &c
	}
	return out
}

// derived per-queue quantities of the statement, computed with the monitor's own arithmetic.
func derive(total float64, in RIn) (dP, rP, base float64) {
	dP = in.Quota
	if in.Quota == -1 {
		dP = total
	}
	rP = in.Request
	if in.Limit != -1 {
		rP = math.Min(in.Request, in.Limit)
	}
	base = math.Min(dP, rP)
	return
}

// runLevel divides one sibling set with the production code (orders times), checks L1-L6 and L8
// on it, then recurses into the children with the parent's fair share as total and checks L7.
func (m *mon) runLevel(path string, total [3]float64, k float64, qs []*QIn, r *rand.Rand, depth int) [][3]float64 {
	n := len(qs)
	id := make([]int, n)
	for i := range id {
		id[i] = i
	}
	fs, down := divide(total, k, qs, id)
	m.inc("sibling_sets")
	m.inc(fmt.Sprintf("sets_depth_%d", depth))
	m.inc("division_calls")

	for res := 0; res < 3; res++ {
		m.laws(path, res, total, k, qs, fs)
	}

	// L8: same set, inserted in other orders and re-run (Go map iteration order is random).
	// L1-L6 are evaluated on the result of every run.
	for o := 1; o < orders; o++ {
		perm := r.Perm(n)
		fs2, _ := divide(total, k, qs, perm)
		m.inc("division_calls")
		m.inc("L8_comparisons")
		for res := 0; res < 3; res++ {
			m.laws(path, res, total, k, qs, fs2)
			eps := 1e-9 * scaleOf(total[res], qs, res, fs)
			maxD, at := 0.0, -1
			for i := range qs {
				d := math.Abs(fs2[i][res] - fs[i][res])
				if !(d <= eps) && (at < 0 || d > maxD || d != d) {
					maxD, at = d, i
				}
			}
			if at >= 0 {
				// tag only (the law is violated by any difference > eps): rounding-cliff effects move
				// at most about one unit per queue of the set; anything larger is tagged gross
				kind := "order-dependent(units)"
				if !(maxD <= float64(n)+eps) {
					kind = "order-dependent(gross)"
				}
				m.report(fmt.Sprintf("L8:%s:%s", resNames[res], kind),
					fmt.Sprintf("queue %s %s: FS=%v in one run, %v in another run of the same set (total=%v k=%v)", qs[at].ID, resNames[res], fs[at][res], fs2[at][res], total[res], k),
					path, k, total, qs, fs, fs2)
			}
		}
	}

	// L7: children divide their parent's fair share (emulates proportion.setFairShareForQueues:
	// SetResourcesShare(parent.GetFairShare(), k, children)).
	for i, q := range qs {
		if len(q.Children) == 0 {
			continue
		}
		var ctot [3]float64
		for res, name := range resNames {
			ctot[res] = down[i][name]
		}
		cfs := m.runLevel(path+"/"+q.ID, ctot, k, q.Children, r, depth+1)
		for res := 0; res < 3; res++ {
			m.inc("L7_checked")
			sumFS, sumBase, sumReq := 0.0, 0.0, 0.0
			for j, c := range q.Children {
				_, rP, base := derive(ctot[res], c.Res[res])
				sumFS += cfs[j][res]
				sumBase += base
				sumReq += rP
			}
			eps := 1e-9 * math.Max(1, math.Max(math.Abs(fs[i][res]), math.Max(sumFS, sumBase)))
			if sumReq > fs[i][res]+eps {
				m.inc("L7_parent_share_binding") // children want more than the parent got
			}
			if ctot[res] != fs[i][res] {
				m.report(fmt.Sprintf("L7:%s:GetFairShare-differs-from-FairShare", resNames[res]),
					fmt.Sprintf("queue %s: GetFairShare()=%v but FairShare=%v", q.ID, ctot[res], fs[i][res]), path, k, total, qs, fs, nil)
			}
			bound := math.Max(fs[i][res], sumBase)
			if !(sumFS <= bound+eps) {
				m.report(fmt.Sprintf("L7:%s:children-exceed-parent-share", resNames[res]),
					fmt.Sprintf("parent %s FS=%v, children sum FS=%v > max(FS_parent, sum base=%v)", q.ID, fs[i][res], sumFS, sumBase),
					path+"/"+q.ID, k, ctot, q.Children, cfs, nil)
			}
		}
	}
	return fs
}

func scaleOf(total float64, qs []*QIn, res int, fs [][3]float64) float64 {
	s := math.Max(1, math.Abs(total))
	for i, q := range qs {
		_, rP, _ := derive(total, q.Res[res])
		s = math.Max(s, math.Max(math.Abs(rP), math.Abs(fs[i][res])))
	}
	return s
}

// laws checks L1-L6 for one resource of one sibling set.
func (m *mon) laws(path string, res int, totals [3]float64, k float64, qs []*QIn, fsAll [][3]float64) {
	name := resNames[res]
	total := totals[res]
	n := len(qs)
	scale := scaleOf(total, qs, res, fsAll)
	eps := 1e-9 * scale                 // tolerance of the non-strict laws and of "satisfied"
	band := math.Min(1e-12*scale, 1e-6) // strict "<" is evaluated as  lhs < rhs - band  (a few thousand ulps; large magnitudes are integer-valued)
	const unit = 1.0                    // math.Floor / min(1, rest) on the raw quantity: 1 milli-core, 1 byte, 1 GPU

	fs := make([]float64, n)
	rP := make([]float64, n)
	base := make([]float64, n)
	sur := make([]float64, n)
	unsat := make([]bool, n)
	sumBase, sumFS, sumSur := 0.0, 0.0, 0.0
	anyUnsat := false
	prios := map[int]bool{}
	rep := func(sig, msg string) {
		m.report(sig, msg+fmt.Sprintf(" [%s total=%v k=%v n=%d]", name, total, k, n), path, k, totals, qs, fsAll, nil)
	}
	for i, q := range qs {
		fs[i] = fsAll[i][res]
		_, rP[i], base[i] = derive(total, q.Res[res])
		sur[i] = fs[i] - base[i]
		sumBase += base[i]
		sumFS += fs[i]
		sumSur += sur[i]
		unsat[i] = rP[i]-fs[i] > eps
		anyUnsat = anyUnsat || unsat[i]
		prios[q.Prio] = true

		// L1
		m.inc("L1_checked")
		if math.IsNaN(fs[i]) || math.IsInf(fs[i], 0) {
			rep(fmt.Sprintf("L1:%s:not-finite", name), fmt.Sprintf("queue %s FS=%v", q.ID, fs[i]))
			return
		}
		if base[i] > 0 {
			m.inc("L1_base_positive")
		}
		if !(fs[i] >= base[i]-eps) {
			rep(fmt.Sprintf("L1:%s:below-min(deserved,capped-request)", name),
				fmt.Sprintf("queue %s FS=%v < base=%v (quota=%v limit=%v request=%v)", q.ID, fs[i], base[i], q.Res[res].Quota, q.Res[res].Limit, q.Res[res].Request))
		}
		// L2
		m.inc("L2_checked")
		if fs[i] > rP[i]+eps {
			m.inc("L2_fs_above_capped_request") // the "+ less than one unit" slack was used
		}
		if over := fs[i] - rP[i]; !(over < unit-band) {
			kind := "over"
			if over <= unit+band {
				kind = "cliff"
			}
			rep(fmt.Sprintf("L2:%s:exceeds-capped-request-by-unit(%s)", name, kind),
				fmt.Sprintf("queue %s FS=%v, capped request=%v (request=%v limit=%v), excess=%v", q.ID, fs[i], rP[i], q.Res[res].Request, q.Res[res].Limit, over))
		}
	}
	if anyUnsat {
		m.inc("resource_sets_with_unsatisfied_queue")
	}

	// L3
	m.inc("L3_checked")
	left := math.Max(0, total-sumBase)
	if left > eps {
		m.inc("L3_surplus_available")
	}
	if sumSur > eps {
		m.inc("L3_surplus_handed_out")
	}
	if !(sumSur <= left+eps) {
		rep(fmt.Sprintf("L3:%s:surplus-exceeds-leftover", name),
			fmt.Sprintf("sum(FS-base)=%v > max(0,total-sum base)=%v (sum base=%v)", sumSur, left, sumBase))
	}

	// L4: surplus left undistributed => every unsatisfied queue has effective weight 0, where the
	// effective weight is max(0, w̄ + k(w̄ - usage)), w̄ = weight normalised over the unsatisfied
	// queues of the same priority (the code's calcShareWeights on the final state; when something
	// is left, the final state is the state of the code's last weight computation).
	if total-sumFS > eps {
		m.inc("L4_antecedent_surplus_left")
		if anyUnsat {
			m.inc("L4_antecedent_surplus_left_and_some_queue_unsatisfied")
		}
		for p := range prios {
			wEps, w0 := 0.0, 0.0
			for i, q := range qs {
				if q.Prio != p {
					continue
				}
				if unsat[i] {
					wEps += q.Res[res].Weight
				}
				if rP[i]-fs[i] > 0 {
					w0 += q.Res[res].Weight
				}
			}
			for i, q := range qs {
				if q.Prio != p || !unsat[i] {
					continue
				}
				if q.Res[res].Weight <= 0 {
					m.inc("L4_unsatisfied_with_weight_zero")
					continue
				}
				in := q.Res[res]
				ewEps := in.Weight/wEps + k*(in.Weight/wEps-in.Usage)
				ew0 := in.Weight/w0 + k*(in.Weight/w0-in.Usage)
				if ewEps > 1e-9 {
					kind := ""
					if !(ew0 > 1e-9) {
						kind = "(fp-lingering-sibling)"
					}
					rep(fmt.Sprintf("L4:%s:surplus-left-while-weighted-queue-unsatisfied%s", name, kind),
						fmt.Sprintf("left=%v; queue %s prio=%d FS=%v < capped request %v, weight=%v usage=%v effective weight=%v", total-sumFS, q.ID, q.Prio, fs[i], rP[i], in.Weight, in.Usage, ewEps))
				} else {
					m.inc("L4_unsatisfied_with_zero_effective_weight_by_usage")
				}
			}
		}
	}

	// L5: while priority P has an unsatisfied queue with positive effective weight, all lower
	// priorities together hold less than (number of queues with priority >= P) units of surplus.
	// Effective weight here is normalised over the queues of priority P that were unsatisfied
	// after the deserved step (its minimum over all rounds, so positivity holds in every round).
	if len(prios) > 1 {
		for p := range prios {
			w0 := 0.0
			for i, q := range qs {
				if q.Prio == p && rP[i]-base[i] > 0 {
					w0 += q.Res[res].Weight
				}
			}
			ante := false
			who := ""
			for i, q := range qs {
				in := q.Res[res]
				if q.Prio == p && unsat[i] && in.Weight > 0 && in.Weight/w0+k*(in.Weight/w0-in.Usage) > 1e-9 {
					ante, who = true, q.ID
					break
				}
			}
			if !ante {
				continue
			}
			lower, cnt, nLower := 0.0, 0, 0
			for i, q := range qs {
				if q.Prio < p {
					lower += sur[i]
					nLower++
				} else {
					cnt++
				}
			}
			if nLower == 0 {
				continue
			}
			m.inc("L5_antecedent_higher_priority_unsatisfied")
			if lower > eps {
				m.inc("L5_lower_priority_received_remainder")
			}
			if !(lower < float64(cnt)*unit-band) {
				kind := "over"
				if lower <= float64(cnt)*unit+band {
					kind = "cliff"
				}
				rep(fmt.Sprintf("L5:%s:lower-priorities-hold-unit-per-higher-queue(%s)", name, kind),
					fmt.Sprintf("priority %d queue %s is unsatisfied with positive weight, yet priorities below hold surplus %v >= %d units", p, who, lower, cnt))
			}
		}
	}

	// L6: same priority, same usage, both unsatisfied, w1 >= w2  =>  surplus1 >= surplus2 - 1.
	for i := 0; i < n; i++ {
		if !unsat[i] {
			continue
		}
		for j := 0; j < n; j++ {
			if i == j || !unsat[j] || qs[i].Prio != qs[j].Prio {
				continue
			}
			a, b := qs[i].Res[res], qs[j].Res[res]
			if a.Usage != b.Usage || !(a.Weight >= b.Weight) {
				continue
			}
			m.inc("L6_pairs_checked")
			if a.Weight > b.Weight {
				m.inc("L6_pairs_strictly_ordered_weights")
			}
			if sur[i] < sur[j]-eps {
				m.inc("L6_pairs_heavier_got_less_within_unit")
			}
			if !(sur[i] >= sur[j]-unit-band) {
				rep(fmt.Sprintf("L6:%s:surplus-not-monotone-in-weight", name),
					fmt.Sprintf("same priority %d and usage %v, both unsatisfied: %s weight=%v surplus=%v, %s weight=%v surplus=%v", qs[i].Prio, a.Usage, qs[i].ID, a.Weight, sur[i], qs[j].ID, b.Weight, sur[j]))
			}
		}
	}

	if n >= 3 && len(prios) >= 2 && anyUnsat {
		m.nonTriv = true
		m.inc("nontrivial_resource_sets")
	}
}

// ---------------------------------------------------------------- run.Check

type check struct{}

// New returns the C09 check.
func New() run.Check { return check{} }

func (check) ID() string    { return "C09" }
func (check) Level() string { return "exploration" }
func (check) NumCases(tier string) int {
	if tier == "thorough" {
		return 10000
	}
	return 600
}
func (check) CaseTimeout() time.Duration { return 300 * time.Second }
func (check) CrashIsViolation() bool     { return true }

func (check) Rule() string {
	return fmt.Sprintf("Each case = %d top-level sibling sets drawn from PCG(seed, index, stream 9): total per resource (0, fractional <1, up to a magnitude drawn per resource: "+
		"GPU 1..512 devices, CPU 4..512000 milli-cores, memory 8..1.1e12 bytes), 1-8 queues, quota (-1, 0, > total, random), limit (-1, 0, <= quota, random), over-quota weight (0 in 20%%), "+
		"1-3 distinct priorities, request (0 in 10%%, up to 0.05..2 x magnitude), usage (all 0 / {0,.25,.5} / arbitrary in [0,1]), k in {0,0.5,1,10}; half of the sets on the dyadic grid (multiples of 1/4), "+
		"half decimals (3 digits, 1 digit, integers, full-precision floats); magnitudes >= 1e4 are integer-valued. A quarter of the sets carry a 2-3 level tree (1-4 children per parent, parent's request = sum of children's in 70%%). "+
		"Every sibling set (top level and every child level, with the parent's GetFairShare() as total) is divided by the production resource_division.SetResourcesShare %d times "+
		"(different map insertion orders, Go-randomised iteration); L1-L6 are evaluated on the FairShare values of every run, L8 compares the runs, L7 uses the first run. "+
		"Non-trivial: a case containing a sibling set with >=3 queues, >=2 priorities and a queue left unsatisfied (FS < capped request) in some resource. Distinct = distinct hash of all generated numbers of the case.", setsPerCase, orders)
}

func (check) Assumptions() []string {
	return []string{
		"rounding unit = 1.0 of the raw quantity for every resource, because the code rounds with math.Floor(share) and hands the remainder out in steps of min(1, rest) on the raw float: 1 GPU device, 1 CPU milli-core, 1 byte of memory",
		"eps = 1e-9*max(1, total, max capped request, max FS) for non-strict laws and for 'unsatisfied' (capped request - FS > eps); strict '<' of L2/L5 (and the -1 of L6) is evaluated with a band of min(1e-12*scale, 1e-6): lhs >= rhs - band is reported, tagged 'cliff' when |lhs-rhs| <= band, 'over' otherwise",
		"L4 effective weight = max(0, w̄ + k(w̄ - usage)), w̄ = weight / sum of weights of the queues of the same priority that are unsatisfied in the final state (exactly what calcShareWeights computes; when surplus is left the final state is the state of the code's last weight computation, so this is sound for every k and usage)",
		"L5 antecedent uses the effective weight normalised over the queues of that priority left unsatisfied after the deserved step (the smallest value it takes in any round), so a queue whose weight is zeroed by k*usage does not count as 'higher priority unsatisfied'; for k=0 or usage=0 this is weight>0",
		"L5 bound = number of queues with priority >= P (reading of 'less than one unit per higher-priority queue')",
		"L7 is evaluated on the harness's own emulation of proportion.setFairShareForQueues (SetResourcesShare(parent.GetFairShare(), k, children)); the plugin's recursion itself is not executed here",
		"L8 reports any difference > eps between two runs of the same set; the suffix (units)/(gross) only tags whether the largest per-queue difference is <= the number of queues (rounding-cliff sized) or larger",
		"negative quantities, NaN/Inf inputs and limits below -1 are not generated; the stale-cache path of GetFairShare is not reachable because attributes are rebuilt for every division, as proportion does per session",
	}
}

func (check) RunCase(seed int64, index int, tier string, env *run.Env) (res run.CaseResult) {
	r := gen.NewRand(seed, index, 9)
	rOrd := gen.NewRand(seed, index, 10)
	m := &mon{cnt: map[string]int{}, sigSeen: map[string]bool{}}
	h := fnv.New64a()
	res.Verdict = run.Held
	defer func() {
		if p := recover(); p != nil {
			res.Verdict = run.Violated
			res.Violations = append(res.Violations, run.Violation{Property: "C09", Oracle: "sut-panic", Sig: fmt.Sprintf("panic:%v", p), Msg: fmt.Sprintf("SetResourcesShare panicked: %v", p)})
			res.Counters = m.cnt
		}
	}()
	for s := 0; s < setsPerCase; s++ {
		set := genSet(r)
		hashSet(h, set)
		m.inc("sets")
		if set.Mode == "dyadic" {
			m.inc("sets_dyadic")
		}
		m.inc(fmt.Sprintf("sets_k_%v", set.K))
		hadTree := false
		for _, q := range set.Queues {
			hadTree = hadTree || len(q.Children) > 0
		}
		if hadTree {
			m.inc("sets_with_tree")
		}
		before := m.nonTriv
		m.runLevel(fmt.Sprintf("set%d", s), set.Total, set.K, set.Queues, rOrd, 1)
		if m.nonTriv && !before && m.sample == nil {
			m.sample = set
		}
	}
	res.Counters = m.cnt
	res.NonTrivial = m.nonTriv
	res.Hash = fmt.Sprintf("%016x", h.Sum64())
	res.Sample = m.sample
	if len(m.finds) > 0 {
		res.Verdict = run.Violated
		sort.SliceStable(m.finds, func(i, j int) bool { return m.finds[i].Sig < m.finds[j].Sig })
		for _, f := range m.finds {
			res.Violations = append(res.Violations, run.Violation{Property: "C09", Oracle: f.Sig[:2], Sig: f.Sig, Msg: f.Path + ": " + f.Msg})
		}
		res.Replay = env.SaveReplay("C09", seed, index, m.finds)
	}
	return res
}

func hashSet(h interface{ Write([]byte) (int, error) }, s *SetIn) {
	var b [8]byte
	w := func(f float64) {
		binary.LittleEndian.PutUint64(b[:], math.Float64bits(f))
		_, _ = h.Write(b[:])
	}
	w(s.K)
	for _, t := range s.Total {
		w(t)
	}
	var walk func(qs []*QIn)
	walk = func(qs []*QIn) {
		w(float64(len(qs)))
		for _, q := range qs {
			w(float64(q.Prio))
			w(float64(q.Created))
			for _, r := range q.Res {
				w(r.Quota)
				w(r.Limit)
				w(r.Weight)
				w(r.Request)
				w(r.Usage)
			}
			walk(q.Children)
		}
	}
	walk(s.Queues)
}
