package c09

import (
	"encoding/json"
	"fmt"
	"math/rand/v2"
	"os"
	"strings"
	"testing"
)

// Triage tool: C09_SHRINK=<replay file> C09_SIG=<sig prefix> go test -run TestShrink ./internal/c09
// greedily shrinks the recorded sibling set while the same law (sig prefix up to the second ':')
// still fires on the production code, and prints the minimal input with the fair shares.
func TestShrink(t *testing.T) {
	path, pref := os.Getenv("C09_SHRINK"), os.Getenv("C09_SIG")
	if path == "" {
		t.Skip("C09_SHRINK not set")
	}
	b, err := os.ReadFile(path)
	if err != nil {
		t.Fatal(err)
	}
	var finds []finding
	if err := json.Unmarshal(b, &finds); err != nil {
		t.Fatal(err)
	}
	for _, f := range finds {
		if !strings.HasPrefix(f.Sig, pref) {
			continue
		}
		law := f.Sig[:strings.Index(f.Sig, ":")]
		res := strings.Split(f.Sig, ":")[1]
		ri := map[string]int{"CPU": 0, "Memory": 1, "GPU": 2}[res]
		// keep only the resource of interest
		total := [3]float64{}
		total[ri] = f.Total[ri]
		qs := f.Qs
		for _, q := range qs {
			for r := 0; r < 3; r++ {
				if r != ri {
					q.Res[r] = RIn{Limit: -1}
				}
			}
		}
		fires := func(total [3]float64, k float64, qs []*QIn) bool {
			if len(qs) == 0 {
				return false
			}
			for rep := 0; rep < 8; rep++ {
				m := &mon{cnt: map[string]int{}, sigSeen: map[string]bool{}}
				m.runLevel("s", total, k, qs, rand.New(rand.NewPCG(uint64(rep), 7)), 1)
				for _, x := range m.finds {
					if strings.HasPrefix(x.Sig, law+":"+res) {
						return true
					}
				}
			}
			return false
		}
		if !fires(total, f.K, qs) {
			t.Logf("%s: does not reproduce on one resource", f.Sig)
			continue
		}
		k := f.K
		for changed := true; changed; {
			changed = false
			for i := range qs { // drop queues
				cand := append(append([]*QIn{}, qs[:i]...), qs[i+1:]...)
				if fires(total, k, cand) {
					qs, changed = cand, true
					break
				}
			}
			if changed {
				continue
			}
			if k != 0 && fires(total, 0, qs) {
				k, changed = 0, true
				continue
			}
			for _, q := range qs { // simplify fields
				in := &q.Res[ri]
				try := func(set func(), undo func()) {
					set()
					if fires(total, k, qs) {
						changed = true
					} else {
						undo()
					}
				}
				if in.Usage != 0 {
					old := in.Usage
					try(func() { in.Usage = 0 }, func() { in.Usage = old })
				}
				if in.Limit != -1 {
					old := in.Limit
					try(func() { in.Limit = -1 }, func() { in.Limit = old })
				}
				if in.Quota != 0 {
					old := in.Quota
					try(func() { in.Quota = 0 }, func() { in.Quota = old })
				}
				if q.Created != 0 {
					old := q.Created
					try(func() { q.Created = 0 }, func() { q.Created = old })
				}
			}
		}
		fmt.Printf("MINIMAL for %s\n  total=%v k=%v\n", f.Sig, total[ri], k)
		id := make([]int, len(qs))
		for i := range id {
			id[i] = i
		}
		seen := map[string]int{}
		for rep := 0; rep < 200; rep++ {
			fs, _ := divide(total, k, qs, rand.New(rand.NewPCG(uint64(rep), 3)).Perm(len(qs)))
			s := ""
			for i := range qs {
				s += fmt.Sprintf("%s=%v ", qs[i].ID, fs[i][ri])
			}
			seen[s]++
		}
		for _, q := range qs {
			in := q.Res[ri]
			fmt.Printf("  %s prio=%d created=%d quota=%v limit=%v weight=%v request=%v usage=%v\n", q.ID, q.Prio, q.Created, in.Quota, in.Limit, in.Weight, in.Request, in.Usage)
		}
		for s, n := range seen {
			fmt.Printf("  FS over 200 runs: %s x%d\n", s, n)
		}
	}
}
