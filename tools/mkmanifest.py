#!/usr/bin/env python3
"""Generates /verif/MANIFEST.json from the table below and validates it against the schema."""
import json, subprocess, sys, os
V='/verif'
checks = {
 'C01': dict(level='exploration', tech='runtime monitoring: offline conservation checker over recorded Cache.Bind/Evict/TaskPipelined events of real scheduler cycles',
   text='Held on N generated multi-cycle histories (real cache+session+actions on an in-memory API store, injected Bind/Evict API failures): per node and resource, requests of occupying pods recomputed from pod specs plus this cycle\'s successful binds never exceed allocatable; terminating / same-cycle-evicted pods keep their capacity.',
   note='Trusts the harness world model (kubelet/binder stand-in) and its own request arithmetic; DRA devices and CSI capacity not checked; clusters <= 12 nodes / 30 workloads.', ref='4/C01'),
 'C02': dict(level='exploration', tech='runtime monitoring: offline per-GPU-group conservation checker over recorded bind events and pod labels',
   text='Held on N generated histories biased to fractional / gpu-memory / multi-fraction pods: per GPU group the shares of all sharers (running, terminating, binding, bound this cycle) stay within the device, whole+shared devices stay within the node GPU count, N fractional devices are N distinct groups, a group lives on one node.',
   note='One accounting unit (1/deviceMemory) of slack per sharer; device identity of whole-GPU pods is not observable, checked as counts.', ref='4/C02'),
 'C03': dict(level='exploration', tech='runtime monitoring: offline min-or-none checker over recorded bind/evict/nomination events grouped by pod group and sub-group',
   text='Held on N generated histories biased to gangs, hierarchical sub-groups and elastic workloads: every pod set that received binds ends at or above its minimum, a fresh gang start reaches the minimum of every pod set, partial binds are never mixed with nominations below the minimum, and evictions either keep every pod set at its minimum or remove all active pods.',
   note='Evaluated only on cases without injected API write failures (as the property states). Known finding (open): victims that are re-placed elsewhere are moved individually, leaving the rest of the gang running.', ref='4/C03'),
 'C04': dict(level='exploration', tech='runtime monitoring: offline re-evaluation of hard placement constraints with an independent matcher over every recorded bind and nomination',
   text='Held on N generated histories with node labels/taints/conditions, selectors, required node and inter-pod (anti-)affinity, node pools and required topology levels on groups and nested sub-groups: every bind/nomination re-checked by the harness own predicates against the API objects, incl. pods bound earlier in the same cycle.',
   note='Terminating, same-cycle-evicted and merely nominated pods are don\'t-care for inter-pod terms; topology labels demanded for the required level and coarser only.', ref='4/C04'),
 'C06': dict(level='exploration', tech='runtime monitoring: offline victim-eligibility checker over recorded Evict(EvictionMetadata) and placement events',
   text='Held on N generated histories with preemptible/non-preemptible mixes, priorities around the boundary, queue trees with min-runtimes (queue and LCA resolution), elastic victims: no non-preemptible or protected victim, preempt victims same queue and strictly lower priority, reclaim victims other queue, every eviction accompanied by a placement of its preemptor in the same action, consolidation victims re-nominated elsewhere.',
   note='Min-runtime verdicts only when the start time is > 5 min from the boundary. Known finding (open): consolidation ignores min-runtime.', ref='4/C06'),
 'C08': dict(level='exploration', tech='runtime monitoring: online running-sum checker of per-queue allocation over the recorded event order',
   text='Held on N generated histories with limits/quotas incl. 0, fractional and ancestor-only: after every bind/nomination the allocation (recomputed from pod specs, rolled up the queue tree) of the queue and each ancestor stays within its limit, and the non-preemptible part within deserved quota.',
   note='Cycles with a failed Bind/Evict call are not judged; terminating pods are not charged (weaker than the scheduler, hence sound); flattened queue tree when full-hierarchy-fairness is off.', ref='4/C08'),
 'C16': dict(level='exploration', tech='runtime monitoring: offline pairwise order checker over allocate-action placements of generator-made clone workloads',
   text='Held on N generated clusters containing clone workloads (same template, gang shape, preemptibility, leaf queue) with shuffled priorities and creation times among many competing workloads: allocate never placed a lower-priority or younger clone while leaving a higher-priority or older one unplaced.',
   note='Clones carry no inter-pod affinity and no topology constraint; only clones whose pods are all pending are compared.', ref='4/C16'),
}
not_applicable = {}
props=[json.loads(l)['id'] for l in open(V+'/properties.jsonl')]
for p in props:
    if p not in checks and p not in not_applicable:
        not_applicable[p]='check not built yet in this session (work in progress; see DESIGN.md section 4 for the planned monitor)'
hook_commits=[]
try:
    out=subprocess.check_output(['git','-C','/repo','log','--format=%H %s'],text=True)
    for l in out.splitlines():
        h,s=l.split(' ',1)
        if s.startswith('verif-hook:'): hook_commits.append(h)
except Exception as e: pass
m={
 'version':1,
 'setup_cmd':'./setup.sh',
 'hooks':{'guard':'verif','enable':'go build -tags verif (harness module /verif/harness with replace github.com/NVIDIA/KAI-scheduler => /repo)',
   'baseline_off_cmd':'cd /repo && GOFLAGS=-mod=mod go test -json -vet=off -count=1 -timeout 25m ./...',
   'source_commits':hook_commits,'add_only':True},
 'engines':[{'name':'verif-harness','path':'harness','serves_properties':sorted(checks),'kind_free_text':'Go harness: real scheduler/binder/controller code on a shared in-memory API store, PRNG-generated cases in worker processes, offline and online monitors, replay files'}],
 'checks':[],
 'notes':'All checks: ./check.sh <id> <tier>; VERIF_SEED selects the PRNG stream; replay: bin/verif replay <id> <file>. Known findings: known_findings.json.',
 'not_applicable':[{'property_id':k,'reason':v} for k,v in sorted(not_applicable.items())],
}
for k in sorted(checks):
    c=checks[k]
    m['checks'].append({'property_id':k,'quick_cmd':f'./check.sh {k} quick','thorough_cmd':f'./check.sh {k} thorough','evidence_file':f'evidence/{k}.json',
      'replay_cmd_template':f'bin/verif replay {k} {{path}}','engine':'verif-harness',
      'level_claimed':{'category':c['level'],'text':c['text'],'design_ref':c['ref']},'level_note':c['note'],'technique':c['tech']})
json.dump(m,open(V+'/MANIFEST.json','w'),indent=1)
sys.path.insert(0,"/opt/veriftools/pyvenv/lib/python3.11/site-packages")
import jsonschema
jsonschema.validate(m,json.load(open('/root/.vp/MANIFEST.schema.json')))
print('MANIFEST ok:',len(m['checks']),'checks,',len(m['not_applicable']),'not applicable')
