#!/usr/bin/env python3
"""Generates /verif/MANIFEST.json from the table below and validates it against the schema."""
import json, subprocess, sys, os
V='/verif'
checks = {
 'C01': dict(level='exploration', tech='runtime monitoring: offline conservation checker over recorded Cache.Bind/Evict/TaskPipelined events of real scheduler cycles',
   text='Held on N generated multi-cycle histories (real cache+session+actions on an in-memory API store, injected Bind/Evict API failures): per node and resource, requests of occupying pods recomputed from pod specs plus this cycle\'s successful binds never exceed allocatable; terminating / same-cycle-evicted pods keep their capacity.',
   note='Trusts the harness world model (kubelet/binder stand-in) and its own request arithmetic; DRA devices and CSI capacity not checked; clusters <= 12 nodes / 30 workloads.', ref='4/C01'),
 'C02': dict(level='exploration', tech='runtime monitoring: offline per-GPU-group conservation checker over recorded bind events and pod labels',
   text='Held on N generated histories biased to fractional / gpu-memory / multi-fraction pods: per GPU group the shares of all sharers (running, terminating, binding, bound this cycle) stay within the device, whole+shared devices stay within the node GPU count, N fractional devices are N distinct groups, a group lives on one node.',
   note='One accounting unit (1/deviceMemory) of slack per sharer; device identity of whole-GPU pods is not observable, checked as counts.', ref='4/C02'),
 'C03': dict(level='exploration', tech='runtime monitoring: offline min-or-none checker over recorded bind/evict/nomination events grouped by pod group and sub-group',
   text='Held on N generated histories biased to gangs, hierarchical sub-groups and elastic workloads: every pod set that received binds ends at or above its minimum, a fresh gang start reaches the minimum of every pod set, partial binds are never mixed with nominations below the minimum, and evictions either keep every pod set at its minimum or remove all active pods.',
   note='Evaluated only on cases without injected API write failures (as the property states). Known finding (open): victims that are re-placed elsewhere are moved individually, leaving the rest of the gang running.', ref='4/C03'),
 'C04': dict(level='exploration', tech='runtime monitoring: offline re-evaluation of hard placement constraints with an independent matcher over every recorded bind and nomination',
   text='Held on N generated histories with node labels/taints/conditions, selectors, required node and inter-pod (anti-)affinity, node pools and required topology levels on groups and nested sub-groups: every bind/nomination re-checked by the harness own predicates against the API objects, incl. pods bound earlier in the same cycle.',
   note='Terminating, same-cycle-evicted and merely nominated pods are don\'t-care for inter-pod terms; topology labels demanded for the required level and coarser only.', ref='4/C04'),
 'C06': dict(level='exploration', tech='runtime monitoring: offline victim-eligibility checker over recorded Evict(EvictionMetadata) and placement events',
   text='Held on N generated histories with preemptible/non-preemptible mixes, priorities around the boundary, queue trees with min-runtimes (queue and LCA resolution), elastic victims: no non-preemptible or protected victim, preempt victims same queue and strictly lower priority, reclaim victims other queue, every eviction accompanied by a placement of its preemptor in the same action, consolidation victims re-nominated elsewhere.',
   note='Min-runtime verdicts only when the start time is > 5 min from the boundary. Known finding (open): consolidation ignores min-runtime.', ref='4/C06'),
 'C07': dict(level='exploration', tech='runtime monitoring: offline reclaim-contract checker over recorded reclaim statement commits (Evict/TaskPipelined events stamped with the commit id by the statement hook), a running per-queue allocation model recomputed from API objects, and the fair share read from the proportion plugin hook',
   text='Held on N generated multi-cycle histories with 1-3 level queue trees (quotas incl. 0 / fractional / unlimited, limits, over-quota weights, priorities, saturation multipliers 1 / 1.2 / 2), over-subscribed clusters and multi-victim reclaims: no reclaim decision took from a queue (lifted to the divergence level) that was within deserved quota in every resource before its last victim, the reclaimer queue ended within fair share in the received resources, a non-preemptible reclaimer stayed within deserved quota at every level, and no reclaimer ancestor ended above fair share and at least as saturated as a sibling it took from.',
   note='Fair share is taken from the scheduler (C09 checks its computation). Decisions are judged only when harness and scheduler agree on the allocation at session open; deserved is capped by the limit; float ties in saturation ratios are flagged only for exactly representable allocations.', ref='4/C07'),
 'C08': dict(level='exploration', tech='runtime monitoring: online running-sum checker of per-queue allocation over the recorded event order',
   text='Held on N generated histories with limits/quotas incl. 0, fractional and ancestor-only: after every bind/nomination the allocation (recomputed from pod specs, rolled up the queue tree) of the queue and each ancestor stays within its limit, and the non-preemptible part within deserved quota.',
   note='Cycles with a failed Bind/Evict call are not judged; terminating pods are not charged (weaker than the scheduler, hence sound); flattened queue tree when full-hierarchy-fairness is off.', ref='4/C08'),
 'C16': dict(level='exploration', tech='runtime monitoring: offline pairwise order checker over allocate-action placements of generator-made clone workloads',
   text='Held on N generated clusters containing clone workloads (same template, gang shape, preemptibility, leaf queue) with shuffled priorities and creation times among many competing workloads: allocate never placed a lower-priority or younger clone while leaving a higher-priority or older one unplaced.',
   note='Clones carry no inter-pod affinity and no topology constraint; only clones whose pods are all pending are compared.', ref='4/C16'),
 'C09': dict(level='exploration', tech='runtime monitoring: algebraic-law and metamorphic (enumeration-order) oracle over direct calls of the production SetResourcesShare',
   text='Held on N generated sibling sets and 2-3 level trees (totals incl. 0/fractional, quota incl. unlimited, limits, weights incl. 0, 1-3 priorities, usage, k in {0,0.5,1,10}): laws L1-L8 of the statement (floor, cap, surplus bound, surplus only left when satisfied, priority remainder, weight monotonicity, children within parent, order independence over 5 insertion orders).',
   note='One rounding unit = 1.0 of the raw quantity; L4/L5 effective weight as computed by the code\'s last round. Known finding (open): L5 cliff for k>0.', ref='4/C09'),
 'C10': dict(level='exploration', tech='runtime monitoring: crash / hang oracle (in-process recover, worker-process exit, per-case watchdog with goroutine-dump triage) plus control-workload oracle over real scheduler cycles on mutated (malformed) API objects',
   text='Held on N generated clusters each carrying 1-5 of 28 malformed-object mutations (queue self-parent / 2- and 3-cycles / missing parents / nil resources / absurd quotas, invalid sub-group graphs, non-positive or huge minimums, pods without containers or pod group, garbage / NaN / Inf / overflow GPU annotations, label-less or zero / negative / empty-capacity nodes, dangling BindRequests, level-less topologies, missing priority classes) plus every 8th case unmutated: two full cycles terminate without panic and a healthy control workload (own queue, own node) is bound.',
   note='Watchdog 20 s per case (~150x a normal cycle); a watchdog without a goroutine inside KAI code is inconclusive. Three genuine defects found and repaired (queue-cycle hang, nil parent queue panic, level-less topology panic).', ref='4/C10'),
 'C11': dict(level='fault_enumeration', tech='runtime monitoring with exhaustive fault injection: every client call of the real binder (BindRequestReconciler + Binder + reservation service + gpusharing / DRA / volume plugins) while processing one BindRequest is enumerated and failed (error) or made the last call of the process (crash); state oracle over the API store after the attempt, after clean-up + Sync in a new process, and after a fault-free retry',
   text='For each of N generated pod shapes (whole GPU, fraction, gpu-memory, multi-fraction, DRA claims, with bystanders, orphan reservation pods, stale labels, pre-existing config maps, init-container fraction, CDI on/off, back-off limits, initial phases): every single fault point (quick) and every pair of fault points (thorough) of the attempt was injected; the pod ended bound to the requested node with side objects in place, or unbound + Failed with side effects removed or removable; never bound twice / elsewhere; Succeeded or already-bound requests are no-ops; a fault-free retry succeeds.',
   note='API server, kubelet device index and watch replay are emulated by the harness; call order inside a node sync follows Go map order (every index is still hit). PVC binding not exercised. Known findings (open): residues when a rollback step itself fails (second fault).', ref='4/C11'),
 'C13': dict(level='exploration', tech='runtime monitoring: statement lifecycle hooks (build tag verif) + canonical session dump compared after Discard/Rollback; Cache calls of Commit compared with the net effect of the valid operations',
   text='Held (up to the listed known findings) on every statement the real allocate/consolidation/reclaim/preempt actions and their solvers create in N generated multi-cycle cases: dump before the first operation / at each checkpoint equals the dump after Discard / Rollback; each Commit emits at most one eviction and one placement per pod and nothing for undone steps.',
   note='A discard/rollback is judged only when no other statement acted in between. Known findings (open): whole-GPU counters / markers of shared-GPU nodes and statements that re-nominate an evicted shared-GPU pod are not restored exactly.', ref='4/C13'),
 'C14': dict(level='exploration', tech='runtime monitoring: online monitor plugin recomputing node / workload / pod-set / queue accounting from the pods after every Allocate/Deallocate event, plus rebuild of each node with the system constructor',
   text='Held (up to the listed known findings) after every simulated step of every action and solver, after OpenSession and after each action in N generated multi-cycle cases: node Idle/Used/Releasing and per-GPU shared memory vs closed forms over PodInfos and vs a node rebuilt with NewNodeInfo+AddTask, workload Allocated / status index / pod-set counters, queue Allocated and AllocatedNotPreemptible, vector == structured.',
   note='Releasing copies that the scheduler keeps charged without a PodInfos entry are modelled explicitly (both readings accepted when ambiguous); whole-GPU counters compared with the rebuild only when no pipelined/releasing sharer is on the node. Known findings (open): accounting after a shared-GPU pod was evicted and re-nominated in the session.', ref='4/C14'),
 'C17': dict(level='exploration', tech='runtime monitoring: Go race detector (-race build, child process per history, reports filtered to binder packages) + porcupine v1.3.0 linearizability check of recorded Reserve/Sync/observe histories per GPU group against a sequential reservation model + quiescent-state invariants, over concurrent real binder processes with PRNG-chosen yields/sleeps, crashes and restarts',
   text='Held on N generated concurrent histories (2-6 consumers on 1-3 groups, single- and multi-fraction, concurrent reconciles and pod events, bind rejections, process crashes between creating a reservation pod and labelling the consumer, restarts with start-up Sync, external loss of a reservation pod): no data race in binder code, every per-group history linearizable (at most one reservation pod, consumers get its index), at quiescence a reservation pod exists iff a live pod carries the group, no running pod on a group without reservation, ConfigMap device index equals the reservation index.',
   note='One lock serialises API calls (atomic per-object API server), which also hides races that span client calls; informer lag and resourceVersion conflicts are not modelled. Porcupine time-outs count as inconclusive.', ref='4/C17'),
 'C18': dict(level='exploration', tech='runtime monitoring: metamorphic (reconcile order / multiplicity) and fixpoint (zero mutating calls) oracle over the real PodReconciler on a counting fake client',
   text='Held on N generated owner chains (22 kinds incl. skip-top-owner) with 1-6 sibling pods: same PodGroup for siblings of documented one-group kinds, per-pod for documented per-pod kinds, identical final PodGroups over 4-5 reconcile orders, zero writes once converged, foreign-owned fields never overwritten.',
   note='Grouping keys asserted only as documented in docs/developer/pod-grouper.md. Known finding (open): batch Job pods get one PodGroup each although documented as one per Job.', ref='4/C18'),
 'C19': dict(level='exploration', tech='runtime monitoring: 3-way differential oracle (admission plugin, scheduler PodInfo, binder bind + ConfigMap) over grammar-generated annotation strings, incl. real scheduler cycle + real binder per case',
   text='Held on N generated pods (20 000 per quick run): accepted => finite positive quantity that scheduler and binder interpret identically; scheduler-treats-as-sharing and (malformed or sharing disabled) => rejected; Mutate idempotent.',
   note='Oracle parses annotation values with math/big, not strconv. Fraction equality within 0.005 (2-decimal resolution of the system).', ref='4/C19'),
 'C20': dict(level='exploration', tech='runtime monitoring: sum-identity and fixpoint oracle over the real PodGroupReconciler, QueueReconciler and operator operands on a counting fake client with shuffled list order',
   text='Held on N generated histories: PodGroup status equals sums over pods by phase and current preemptibility (incl. flips), Queue status equals sums over pod groups and children at every level after reconciling in any order, second reconcile / second Deploy performs no mutating call, two fresh stores with the same operator config end identical.',
   note='No-op write requests are counted but not reported; list order shuffled in half of the cases (informer cache order is a map order). Known finding (open): ServiceAccount imagePullSecrets union keeps removed secrets.', ref='4/C20'),
}
not_applicable = {}
props=[json.loads(l)['id'] for l in open(V+'/properties.jsonl')]
for p in props:
    if p not in checks and p not in not_applicable:
        not_applicable[p]='check not built yet in this session (work in progress; see DESIGN.md section 4 for the planned monitor)'
hook_commits=[]
try:
    out=subprocess.check_output(['git','-C','/repo','log','--format=%H %s'],text=True)
    for l in out.splitlines():
        h,s=l.split(' ',1)
        if s.startswith('verif-hook:'): hook_commits.append(h)
except Exception as e: pass
m={
 'version':1,
 'setup_cmd':'./setup.sh',
 'hooks':{'guard':'verif','enable':'go build -tags verif (harness module /verif/harness with replace github.com/NVIDIA/KAI-scheduler => /repo)',
   'baseline_off_cmd':'cd /repo && GOFLAGS=-mod=mod go test -json -vet=off -count=1 -timeout 25m ./...',
   'source_commits':hook_commits,'add_only':True},
 'engines':[{'name':'verif-harness','path':'harness','serves_properties':sorted(checks),'kind_free_text':'Go harness: real scheduler/binder/controller code on a shared in-memory API store, PRNG-generated cases in worker processes, offline and online monitors, replay files'}],
 'checks':[],
 'notes':'All checks: ./check.sh <id> <tier>; VERIF_SEED selects the PRNG stream; replay: bin/verif replay <id> <file>. Known findings: known_findings.json.',
 'not_applicable':[{'property_id':k,'reason':v} for k,v in sorted(not_applicable.items())],
}
for k in sorted(checks):
    c=checks[k]
    m['checks'].append({'property_id':k,'quick_cmd':f'./check.sh {k} quick','thorough_cmd':f'./check.sh {k} thorough','evidence_file':f'evidence/{k}.json',
      'replay_cmd_template':f'bin/verif replay {k} {{path}}','engine':'verif-harness',
      'level_claimed':{'category':c['level'],'text':c['text'],'design_ref':c['ref']},'level_note':c['note'],'technique':c['tech']})
json.dump(m,open(V+'/MANIFEST.json','w'),indent=1)
sys.path.insert(0,"/opt/veriftools/pyvenv/lib/python3.11/site-packages")
import jsonschema
jsonschema.validate(m,json.load(open('/root/.vp/MANIFEST.schema.json')))
print('MANIFEST ok:',len(m['checks']),'checks,',len(m['not_applicable']),'not applicable')
