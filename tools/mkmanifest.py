#!/usr/bin/env python3
"""Generates /verif/MANIFEST.json from the table below and validates it against the schema."""
import json, subprocess, sys, os
V='/verif'
checks = {
 'C01': dict(level='exploration', tech='runtime monitoring: offline conservation checker over recorded Cache.Bind/Evict/TaskPipelined events of real scheduler cycles',
   text='Held on N generated multi-cycle histories (real cache+session+actions on an in-memory API store, injected Bind/Evict API failures): per node and resource, requests of occupying pods recomputed from pod specs plus this cycle\'s successful binds never exceed allocatable; terminating / same-cycle-evicted pods keep their capacity.',
   note='Trusts the harness world model (kubelet/binder stand-in) and its own request arithmetic; DRA devices and CSI capacity not checked; clusters <= 12 nodes / 30 workloads.', ref='4/C01'),
 'C02': dict(level='exploration', tech='runtime monitoring: offline per-GPU-group conservation checker over recorded bind events and pod labels',
   text='Held on N generated histories biased to fractional / gpu-memory / multi-fraction pods: per GPU group the shares of all sharers (running, terminating, binding, bound this cycle) stay within the device, whole+shared devices stay within the node GPU count, N fractional devices are N distinct groups, a group lives on one node.',
   note='One accounting unit (1/deviceMemory) of slack per sharer; device identity of whole-GPU pods is not observable, checked as counts.', ref='4/C02'),
}
not_applicable = {}
props=[json.loads(l)['id'] for l in open(V+'/properties.jsonl')]
for p in props:
    if p not in checks and p not in not_applicable:
        not_applicable[p]='check not built yet in this session (work in progress; see DESIGN.md section 4 for the planned monitor)'
hook_commits=[]
try:
    out=subprocess.check_output(['git','-C','/repo','log','--format=%H %s'],text=True)
    for l in out.splitlines():
        h,s=l.split(' ',1)
        if s.startswith('verif-hook:'): hook_commits.append(h)
except Exception as e: pass
m={
 'version':1,
 'setup_cmd':'./setup.sh',
 'hooks':{'guard':'verif','enable':'go build -tags verif (harness module /verif/harness with replace github.com/NVIDIA/KAI-scheduler => /repo)',
   'baseline_off_cmd':'cd /repo && GOFLAGS=-mod=mod go test -json -vet=off -count=1 -timeout 25m ./...',
   'source_commits':hook_commits,'add_only':True},
 'engines':[{'name':'verif-harness','path':'harness','serves_properties':sorted(checks),'kind_free_text':'Go harness: real scheduler/binder/controller code on a shared in-memory API store, PRNG-generated cases in worker processes, offline and online monitors, replay files'}],
 'checks':[],
 'notes':'All checks: ./check.sh <id> <tier>; VERIF_SEED selects the PRNG stream; replay: bin/verif replay <id> <file>. Known findings: known_findings.json.',
 'not_applicable':[{'property_id':k,'reason':v} for k,v in sorted(not_applicable.items())],
}
for k in sorted(checks):
    c=checks[k]
    m['checks'].append({'property_id':k,'quick_cmd':f'./check.sh {k} quick','thorough_cmd':f'./check.sh {k} thorough','evidence_file':f'evidence/{k}.json',
      'replay_cmd_template':f'bin/verif replay {k} {{path}}','engine':'verif-harness',
      'level_claimed':{'category':c['level'],'text':c['text'],'design_ref':c['ref']},'level_note':c['note'],'technique':c['tech']})
json.dump(m,open(V+'/MANIFEST.json','w'),indent=1)
import jsonschema
jsonschema.validate(m,json.load(open('/root/.vp/MANIFEST.schema.json')))
print('MANIFEST ok:',len(m['checks']),'checks,',len(m['not_applicable']),'not applicable')
