#!/usr/bin/env python3
"""Compare a `go test -json` output with the stable-pass list of /root/.vp/BASELINE.json."""
import json,sys,ast
b=json.load(open('/root/.vp/BASELINE.json'))
stable=b['stable_pass']
if isinstance(stable,str): stable=ast.literal_eval(stable)
stable=set(stable)
res={}
for line in open(sys.argv[1]):
    try: e=json.loads(line)
    except Exception: continue
    if e.get('Action') in('pass','fail','skip') and e.get('Test'):
        res[e['Package']+'::'+e['Test']]=e['Action']
missing=[t for t in stable if res.get(t)!='pass']
print('stable',len(stable),'passed of stable',len(stable)-len(missing),'not passing',len(missing))
for t in sorted(missing)[:40]: print('  ',t,res.get(t))
