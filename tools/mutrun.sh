#!/bin/bash
# usage: tools/mutrun.sh <patch-file|-> <check-id> [seed] [tier]
# Builds the harness against a scratch worktree of /repo (HEAD + patch) and runs one check with it.
# The worktree /tmp/mutwt is reset afterwards (remove it with: git -C /repo worktree remove --force /tmp/mutwt). "-" = no patch (sanity run).
set -u
patch=$(readlink -f "$1" 2>/dev/null || echo "$1"); [ "$1" = "-" ] && patch="-"; id=$2; seed=${3:-1}; tier=${4:-quick}
export GOFLAGS=-mod=mod GOPROXY=off
# disk guard: builds against scratch worktrees fill the go build cache (one set of objects per path)
if [ "$(df --output=avail -BG / | tail -1 | tr -dc 0-9)" -lt 25 ]; then go clean -cache >/dev/null 2>&1; fi
# one fixed scratch worktree (stable path = go build cache hits), serialised by a lock
wt=${MUTWT:-/tmp/mutwt}
exec 9>$wt.lock; flock 9
if [ ! -d $wt/.git ] && [ ! -f $wt/.git ]; then git -C /repo worktree prune; git -C /repo worktree add --detach -q $wt HEAD || exit 2; fi
git -C $wt checkout -q --detach $(git -C /repo rev-parse HEAD) && git -C $wt reset -q --hard && git -C $wt clean -qfd
trap 'git -C $wt reset -q --hard; git -C $wt clean -qfd; rm -f /tmp/mut.$$.mod /tmp/mut.$$.sum /verif/bin/verif-mut.$$' EXIT
if [ "$patch" != "-" ]; then git -C $wt apply $patch || { echo "patch does not apply"; exit 2; }; fi
(cd $wt && go build ./pkg/... ) || { echo "mutant does not compile"; exit 2; }
sed "s#=> /repo#=> $wt#" /verif/harness/go.mod > /tmp/mut.$$.mod; cp /verif/harness/go.sum /tmp/mut.$$.sum
tags=verif; race=""; [ "$id" = C17 ] && race="-race"
# MUT_RACE=1: the supplementary race-detector phase of check.sh (C14, C12) against the mutant
if [ -n "${MUT_RACE:-}" ]; then race="-race"; export GORACE="halt_on_error=0 exitcode=0 log_path=/tmp/mutrace.$$"; export VERIF_RACE_LOG=/tmp/mutrace.$$; MUT_ARGS="${MUT_ARGS:-} --race-phase --max ${MUT_RACE_CASES:-64}"; fi
(cd /verif/harness && go build $race -tags $tags -modfile=/tmp/mut.$$.mod -o /verif/bin/verif-mut.$$ ./cmd/verif) || exit 2
mkdir -p /tmp/mutverif.$$; cp /verif/known_findings.json /tmp/mutverif.$$/
/verif/bin/verif-mut.$$ check $id --tier $tier --seed $seed --verif /tmp/mutverif.$$ ${MUT_ARGS:-} > /tmp/mutout.$$ 2>&1
[ -n "${MUT_KEEPBIN:-}" ] && cp /verif/bin/verif-mut.$$ "$MUT_KEEPBIN"
grep -a "^check\|^VIOLATION" /tmp/mutout.$$ | sed 's/replay=.*//' | cut -c1-220
grep -a "^violation" /tmp/mutout.$$ | sed 's/replay=.*//' | awk '{ $2=""; print }' | cut -c1-220 | sort | uniq -c | sort -rn | head -${MUT_LINES:-12}
[ -n "${MUT_KEEP:-}" ] && cp /tmp/mutout.$$ "$MUT_KEEP"
rm -f /tmp/mutout.$$
rm -rf /tmp/mutverif.$$
