#!/bin/bash
# usage: tools/seed_import2.sh <ID>   — round 3: copies a sub-agent's deliverables from /tmp/seed3/<ID>/out to /verif/seeded/<ID>-c (and -d)
set -u
id=$1; src=/tmp/seed3/$id/out
[ -f $src/patch.diff ] || { echo "no patch for $id"; exit 1; }
d=/verif/seeded/$id-e; mkdir -p $d; cp $src/patch.diff $d/patch.diff; cp $src/meta.json $d/meta.json 2>/dev/null; rm -rf $d/demo; cp -r $src/demo $d/demo 2>/dev/null
if [ -f $src/patch2.diff ]; then d=/verif/seeded/$id-f; mkdir -p $d; cp $src/patch2.diff $d/patch.diff; cp $src/meta2.json $d/meta.json 2>/dev/null; rm -rf $d/demo; cp -r $src/demo2 $d/demo 2>/dev/null; fi
find /verif/seeded/$id-* -name '*.log' -size +200k -delete
find /verif/seeded/$id-* -type f -size +2M -delete
ls /verif/seeded/ | grep "^$id-"
