#!/bin/bash
# usage: tools/sweep.sh <tier> <seed>... : runs every check at the given seeds against /repo (unchanged tree expected silent);
# evidence/replays go to a scratch dir (/tmp/sweep-verif), one summary line per check and seed.
tier=$1; shift
cd /verif
export GOFLAGS=-mod=mod GOPROXY=off
( cd harness && go build -tags verif -o ../bin/verif ./cmd/verif && go build -race -tags verif -o ../bin/verif-race ./cmd/verif ) || exit 2
V=/tmp/sweep-verif; mkdir -p $V; cp known_findings.json $V/
for seed in "$@"; do
  for id in ${SWEEP_IDS:-C01 C02 C03 C04 C05 C06 C07 C08 C09 C10 C11 C12 C13 C14 C15 C16 C17 C18 C19 C20}; do
    bin=bin/verif; [ $id = C17 ] && bin=bin/verif-race
    out=$V/$id-$tier-$seed.log
    ./$bin check $id --tier $tier --seed $seed --verif $V > $out 2>&1; rc=$?
    echo "seed=$seed $id rc=$rc $(grep '^check ' $out | cut -c1-160) $(grep -c '^violation' $out) unknown-violations"
    grep '^violation' $out | sed 's/replay=.*//' | awk '{ $2=""; print }' | sort | uniq -c | sort -rn | head -5
  done
done
