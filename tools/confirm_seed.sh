#!/bin/bash
# usage: tools/confirm_seed.sh <patch.diff> [label]
# Confirms that a seeded change compiles and that the repository's pinned suite still passes with it:
# scratch worktree of /repo HEAD under /tmp + patch, go build ./..., full `go test -json` run compared with the
# stable-pass list of /root/.vp/BASELINE.json. The worktree is removed afterwards.
set -u
patch=$1; label=${2:-seed}
export GOFLAGS=-mod=mod GOPROXY=off
wt=$(mktemp -d /tmp/confirmwt.XXXXXX); rmdir $wt
git -C /repo worktree add --detach -q $wt HEAD || exit 2
trap 'git -C /repo worktree remove --force $wt' EXIT
git -C $wt apply $patch || { echo "RESULT $label: patch does not apply"; exit 2; }
(cd $wt && go build ./... ) || { echo "RESULT $label: does not compile"; exit 2; }
out=/tmp/confirm.$label.json
(cd $wt && go test -mod=mod -json -vet=off -count=1 -timeout 25m ./... > $out 2>/dev/null)
python3 /verif/tools/check_baseline.py $out | sed "s/^/RESULT $label: /"
rm -f $out
