#!/usr/bin/env python3
"""Pretty-print a scheduler-side replay file (debug helper)."""
import json,sys
d=json.load(open(sys.argv[1]))
c=d['case']
node_filter=sys.argv[2] if len(sys.argv)>2 else None
print('actions:',c['config']['actions'],'faults:',c['faults'],'world:',c['world'])
print('config:',{k:v for k,v in c['config'].items() if k!='actions'})
for n in c['objects']['nodes']:
    print('NODE',n['metadata']['name'], n['status']['allocatable'], {k:v for k,v in n['metadata']['labels'].items() if k!='kubernetes.io/hostname'}, n['spec'].get('taints'), 'UNSCHED' if n['spec'].get('unschedulable') else '', n['status']['conditions'][0]['status'])
for q in c['objects']['queues']:
    r=q['spec']['resources']
    print('QUEUE',q['metadata']['name'],'parent',q['spec'].get('parentQueue'),'gpu',r['gpu'],'cpu',r['cpu'],'mem',r['memory'],'prio',q['spec'].get('priority'),q['spec'].get('preemptMinRuntime'),q['spec'].get('reclaimMinRuntime'))
for g in c['objects']['podGroups']:
    s=g['spec']
    print('PG',g['metadata']['name'],'q',s.get('queue'),'min',s.get('minMember'),'prio',s.get('priorityClassName'),'preempt',s.get('preemptibility'),'subs',s.get('subGroups'),'topo',s.get('topologyConstraint'), g['metadata'].get('annotations'))
for p in c['objects']['pods']:
    if node_filter and p['spec'].get('nodeName')!=node_filter: continue
    print('POD',p['metadata']['namespace'],p['metadata']['name'], 'node',p['spec'].get('nodeName'), p['status']['phase'], 'TERM' if p['metadata'].get('deletionTimestamp') else '', p['spec']['containers'][0]['resources'].get('requests'), {k:v for k,v in p['metadata'].get('annotations',{}).items() if 'gpu' in k}, p['metadata'].get('labels'), p['spec'].get('nodeSelector'), 'AFF' if p['spec'].get('affinity') else '', 'INIT' if p['spec'].get('initContainers') else '')
for b in c['objects'].get('bindRequests',[]):
    print('BR', b['metadata']['name'], b['spec']['selectedNode'], b['spec'].get('selectedGPUGroups'), b['status'])
for cy in d['cycles']:
    print('CYCLE',cy['cycle'])
    for e in cy['events'] or []:
        print('   ',e['action'],e['kind'],e['pod'],'->',e.get('node'),e.get('gpuGroups'),'err=',e.get('err'),e.get('evictAction'),e.get('preemptor'))
    for w in cy.get('world') or []: print('    world:',w)
for v in d['violations']: print('VIOL cycle',v.get('cycle'), v['oracle'], v['msg'][:600])
