#!/bin/bash
# usage: tools/seed_eval.sh <seeded-dir-name> [check ids...]  — runs checks (default: the property's own) against the seeded patch
d=/verif/seeded/$1; shift
own=$(basename $d | cut -d- -f1)
ids=${@:-$own}
for id in $ids; do
  for seed in 1 2; do
    out=$d/check-$id-seed$seed.txt
    MUT_LINES=8 /verif/tools/mutrun.sh $d/patch.diff $id $seed > $out 2>&1
    if grep -q "^VIOLATION" $out; then echo "$(basename $d) $id seed$seed: DETECTED $(grep -m1 'violation' $out | cut -c1-150)"; break; else echo "$(basename $d) $id seed$seed: not detected ($(grep -m1 'check ' $out | cut -c1-120))"; fi
  done
done
