#!/bin/bash
# usage: tools/eval_all.sh <lane-count>  — final evaluation: every seeded change against its own check (seeds 1, 2; quick tier), in parallel lanes
# (one scratch worktree /tmp/evalwt<k> per lane); results in seeded/<name>/check-*.txt, summary in /tmp/evalall-<k>.log
n=${1:-3}
cd /verif
names=$(ls -d seeded/C* | xargs -n1 basename | sort)
k=0
for lane in $(seq 1 $n); do
  ( i=0; for s in $names; do i=$((i+1)); if [ $((i % n)) -eq $((lane % n)) ]; then rm -f seeded/$s/check-*.txt; MUTWT=/tmp/evalwt$lane tools/seed_eval.sh $s; fi; done > /tmp/evalall-$lane.log 2>&1 ) &
done
wait
