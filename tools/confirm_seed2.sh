#!/bin/bash
# usage: tools/confirm_seed2.sh <seeded-dir-name>
# Confirms a seeded change in a scratch worktree of /repo HEAD: patch applies, go build ./..., the test packages of
# every component the patch touches (plus cmd/) still pass, and the sub-agent's demonstration fails with the patch
# and passes without it. Writes seeded/<name>/confirm.txt. The worktree is removed afterwards.
set -u
name=$1; d=/verif/seeded/$name; id=${name%%-*}; sub=${name##*-}
export GOFLAGS=-mod=mod GOPROXY=off
# disk guard: builds against scratch worktrees fill the go build cache (one set of objects per path)
if [ "$(df --output=avail -BG / | tail -1 | tr -dc 0-9)" -lt 25 ]; then go clean -cache >/dev/null 2>&1; fi
wt=$(mktemp -d /tmp/cfwt.XXXXXX); rmdir $wt
git -C /repo worktree add --detach -q $wt HEAD || exit 2
trap 'git -C /repo worktree remove --force $wt' EXIT
out=$d/confirm.txt; : > $out
log() { echo "$@" | tee -a $out; }
cd $wt
git apply $d/patch.diff || { log "APPLY: FAILED"; exit 1; }
log "APPLY: ok ($(grep -c '^+++' $d/patch.diff) files: $(grep '^+++' $d/patch.diff | sed 's#+++ b/##' | tr '\n' ' '))"
if go build ./... 2>>$out; then log "BUILD: ok"; else log "BUILD: FAILED"; exit 1; fi
pk=""
for f in $(grep '^+++' $d/patch.diff | sed 's#+++ b/##'); do
  case $f in
    pkg/scheduler/*) pk="$pk ./pkg/scheduler/...";;
    pkg/binder/*) pk="$pk ./pkg/binder/... ./pkg/admission/...";;
    pkg/common/*) pk="$pk ./pkg/common/... ./pkg/binder/... ./pkg/scheduler/... ./pkg/admission/... ./pkg/podgroupcontroller/... ./pkg/queuecontroller/... ./pkg/podgrouper/...";;
    pkg/*) comp=$(echo $f | cut -d/ -f1-2); pk="$pk ./$comp/...";;
    cmd/*) pk="$pk ./cmd/...";;
  esac
done
pk=$(echo $pk ./cmd/... | tr ' ' '\n' | sort -u | tr '\n' ' ')
go test -vet=off -count=1 -timeout 25m $pk > /tmp/cf.$$.log 2>&1
# suites that need a kube-apiserver/etcd binary (TestAPIs, TestEnvTests) fail at HEAD too and are not in the pinned list
fails=$(grep -E "^(FAIL|--- FAIL)" /tmp/cf.$$.log | grep -v "integration_tests\|env-tests\|queuecontroller/controllers\b\|^--- FAIL: TestAPIs\|^--- FAIL: TestEnvTests\|^FAIL$" | head -5)
np=$(grep -c "^ok" /tmp/cf.$$.log)
if [ -z "$fails" ]; then log "TESTS: ok ($np packages ok; packages: $pk)"; else log "TESTS: FAILED"; echo "$fails" | tee -a $out; fi
rm -f /tmp/cf.$$.log
# demonstration
src=/tmp/seed/$id/out; demo=demo; [ "$sub" = b ] && demo=demo2
# round 2 (and any imported seed): the demonstration kept next to the patch
if [ -d $d/demo ]; then src=$d; demo=demo; fi
if [ -d $src/$demo ]; then
  mkdir -p out; rm -rf out/$demo; cp -r $src/$demo out/$demo
  # every "cp <demo file>_test.go <destination under pkg/ or cmd/>" line of the README is honoured (file or directory target);
  # demo files without such a line go to the directory the first line names
  pkgdirs=""
  ncopied=0
  while read -r srcf dst; do
    [ -z "$srcf" ] && continue
    f=out/$demo/$(basename $srcf)
    [ -f "$f" ] || continue
    case $dst in */) mkdir -p $dst; cp $f $dst; pd=${dst%/};; *_test.go) mkdir -p $(dirname $dst); cp $f $dst; pd=$(dirname $dst);; *) if [ -d "$dst" ]; then cp $f $dst/; pd=$dst; else mkdir -p $dst; cp $f $dst/; pd=$dst; fi;; esac
    pkgdirs="$pkgdirs ./$pd/"
    ncopied=$((ncopied+1))
  done < <(grep -hoE "cp +[^ ]*_test\.go +[^ ]*(pkg|cmd)/[^ ]*" out/$demo/README.md 2>/dev/null | awk '{print $2, $3}')
  if [ $ncopied -eq 0 ]; then
    tf=$(find out/$demo -name '*_test.go' | head -1)
    [ -n "$tf" ] && pkgdirs="./$(dirname $tf)/"
  fi
  pkgdirs=$(echo $pkgdirs | tr ' ' '\n' | sort -u | tr '\n' ' ')
  # only the demonstration's own tests (packages may hold suites that need an etcd binary)
  tests=$(grep -hoE "^func (Test[A-Za-z0-9_]*)" out/$demo/*_test.go 2>/dev/null | awk '{print $2}' | sort -u | tr '\n' '|' | sed 's/|$//')
  runflag=""; [ -n "$tests" ] && runflag="-run ^($tests)\$"
  if [ -n "$pkgdirs" ]; then
    go test -vet=off -count=1 $runflag $pkgdirs > /tmp/cfd.$$.log 2>&1; with=$?
    git apply -R $d/patch.diff
    go test -vet=off -count=1 $runflag $pkgdirs > /tmp/cfd2.$$.log 2>&1; without=$?
    log "DEMO: with patch exit=$with (expected non-zero), without patch exit=$without (expected 0) [$pkgdirs]"
    [ $without -ne 0 ] && grep -E "^(--- FAIL|FAIL|panic)" /tmp/cfd2.$$.log | head -5 >> $out
    rm -f /tmp/cfd.$$.log /tmp/cfd2.$$.log
  else
    log "DEMO: no go test file found (manual)"
  fi
else
  log "DEMO: directory $src/$demo missing"
fi
