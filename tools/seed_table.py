#!/usr/bin/env python3
"""Builds the markdown table of seeded changes (seeded/*/meta.json + check-*.txt + confirm.txt)."""
import json,glob,os,re
rows=[]
for d in sorted(glob.glob('/verif/seeded/*')):
    name=os.path.basename(d)
    try: m=json.load(open(d+'/meta.json'))
    except Exception: m={}
    summ=(m.get('summary') or '')
    if isinstance(summ,list): summ=' '.join(summ)
    summ=re.sub(r'\s+',' ',str(summ))[:230]
    files=m.get('files') or []
    if isinstance(files,str): files=[files]
    files=', '.join(os.path.basename(str(f)) for f in files)[:80]
    det=[]
    for f in sorted(glob.glob(d+'/check-*.txt')):
        cid=os.path.basename(f).split('-')[1]; seed=os.path.basename(f).split('-')[2].replace('.txt','')
        t=open(f).read()
        if re.search(r'^VIOLATION',t,re.M):
            sig=re.search(r'sig=([^\s]+)',t)
            det.append(f"{cid} ({seed}): {sig.group(1)[:70] if sig else 'violation'}")
    conf=''
    if os.path.exists(d+'/confirm.txt'):
        t=open(d+'/confirm.txt').read()
        conf=('tests ok' if 'TESTS: ok' in t else 'TESTS?')+', '+('demo ok' if re.search(r'with patch exit=[1-9].*without patch exit=0',t) else 'demo: see confirm.txt')
    rows.append((name,files,summ,'; '.join(dict.fromkeys(det)) or '**not caught**',conf))
print('| seed | file | change | caught by: check (seed of the quick tier, or thorough4000 = first 4000 cases of the thorough tier at seed 1): first signature | confirmed |')
print('|------|------|--------|------------------------------------------|-----------|')
for r in rows: print('| '+' | '.join(x.replace('|','/') for x in r)+' |')
