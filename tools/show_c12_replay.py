#!/usr/bin/env python3
# usage: show_c12_replay.py <replay.json> [x] [calls]  - prints a C12 replay (plan, requests, per-step history; third arg: with client call logs)
import json,sys
r=json.load(open(sys.argv[1]))
node=sys.argv[2] if len(sys.argv)>2 else None
print(r['plan'])
for v in r['violations']: print('VIOL',v['sig'],v.get('cycle'),v['msg'][:400])
for q in r['requests']: print(q)
c=r['case']
print('actions',c['config']['actions'])
for n in c['objects']['nodes']: print('NODE',n['metadata']['name'],{k:v for k,v in n['status']['allocatable'].items()},n['metadata']['labels'].get('nvidia.com/gpu.memory'))
for p in c['objects']['pods']:
    a=p['metadata'].get('annotations',{})
    l=p['metadata'].get('labels',{})
    req=p['spec']['containers'][0]['resources'].get('requests',{})
    print('POD',p['metadata']['namespace'],p['metadata']['name'],'node',p['spec'].get('nodeName'),p['status'].get('phase'),'del' if p['metadata'].get('deletionTimestamp') else '',{k:a[k] for k in a if k.startswith('gpu')},{k:l[k] for k in l if 'gpu-group' in k},req)
for b in c['objects'].get('bindRequests',[]): print('BR0',b['metadata']['name'],b['spec'].get('selectedNode'),b['spec'].get('selectedGPUGroups'),b.get('status'))
for s in r['history']:
    k=s['kind']
    if k=='cycle':
        print(s['n'],'CYCLE',s['afterCycle'],'before',[(b['key'],b['uid'],b['selectedNode'],b.get('selectedGPUGroups'),b['phase'],b['failedAttempts'],b['backoffLimit']) for b in s.get('requestsBefore',[])])
        print('     events',[(e['kind'],e['pod'],e.get('node'),e.get('gpuGroups'),e.get('err','')) for e in s.get('events',[])])
        print('     snap',[(p['pod'],p.get('status'),p.get('nodeName'),p.get('gpuGroups')) for p in s.get('snapshotPods',[])])
        print('     idle',[(n['node'],n['idleCPUMilli'],n['idleGPUs']) for n in s.get('snapshotNodes',[])])
    elif k=='reconcile':
        print(s['n'],'REC',s['request'],s['uid'],s['fate'],s.get('trigger'),s.get('note',''),'fault',s.get('faultAt'),'res',s['result'],'FA',s['requestBefore']['failedAttempts'],'->',(s.get('requestAfter') or {}).get('failedAttempts'),(s.get('requestAfter') or {}).get('phase'),'pod',s.get('podNodeBefore'),'->',s.get('podNodeAfter'))
        if len(sys.argv)>3: print('        calls',s.get('calls'))
    else:
        print(s['n'],k.upper(),s.get('note',''),s.get('request',''),s.get('calls','') if len(sys.argv)>3 else '')
