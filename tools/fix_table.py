#!/usr/bin/env python3
"""Markdown table of the fix: commits in /repo with the property whose check found the defect (known_findings.json)."""
import json,subprocess
log=subprocess.check_output(['git','-C','/repo','log','--reverse','--format=%h %s'],text=True).splitlines()
fixes=[(l.split()[0],l.split(' ',1)[1]) for l in log if ' fix:' in l]
d=json.load(open('/verif/known_findings.json'))
prop={}
for f in d['findings']:
    if f['status'].startswith('fixed:'):
        h=f['status'][6:13]
        prop.setdefault(h,set()).add(f['property'])
print('| commit | property | repair |')
print('|--------|----------|--------|')
for h,s in fixes:
    ps=sorted(p for k,v in prop.items() if h.startswith(k) or k.startswith(h) for p in v)
    print(f"| {h} | {', '.join(ps) or '?'} | {s[5:]} |")
print(f"\n{len(fixes)} fix commits.")
