#!/bin/bash
# usage: check.sh <property id> [quick|thorough]
# Rebuilds the harness against /repo's current working tree (build tag verif) and runs one check.
# C17 always runs on a -race build. C14 and C12 have a supplementary race-detector phase: a share of the same
# generated cases is re-run on a -race build (GORACE halt_on_error=0, reports parsed from the log files).
set -u
cd "$(dirname "$0")"
ID="$1"; TIER="${2:-${VERIF_TIER:-quick}}"
export GOFLAGS=-mod=mod GOPROXY=off
unset GOTOOLCHAIN GOSUMDB 2>/dev/null
mkdir -p bin logs evidence replays
BUILDLOG=logs/build-$ID.log
BIN=bin/verif
RACE=""
case "$ID" in C17) BIN=bin/verif-race; RACE="-race";; esac
build() { # build <bin> <raceflag>
  ( cd harness && go build $2 -tags verif -o ../$1 ./cmd/verif ) >"$BUILDLOG" 2>&1
  if [ $? -ne 0 ]; then
    echo "build failed (see $BUILDLOG):"; tail -30 "$BUILDLOG"
    echo "VIOLATION property=$ID replay=$PWD/$BUILDLOG"
    exit 1
  fi
}
build $BIN "$RACE"
SEED="${VERIF_SEED:-1}"
RACECASES=0
case "$ID:$TIER" in
  C14:quick) RACECASES=${VERIF_RACE_CASES:-64};;
  C14:thorough) RACECASES=${VERIF_RACE_CASES:-800};;
  C12:thorough) RACECASES=${VERIF_RACE_CASES:-324};;
esac
if [ "$RACECASES" -eq 0 ]; then
  exec ./$BIN check "$ID" --tier "$TIER" --seed "$SEED" --verif "$PWD"
fi
./$BIN check "$ID" --tier "$TIER" --seed "$SEED" --verif "$PWD"; rc=$?
build bin/verif-race -race
rm -f logs/racelog-$ID.*
echo "--- race-detector phase: $RACECASES cases of the $TIER list on a -race build"
GORACE="halt_on_error=0 exitcode=0 log_path=$PWD/logs/racelog-$ID" VERIF_RACE_LOG="$PWD/logs/racelog-$ID" \
  ./bin/verif-race check "$ID" --tier "$TIER" --seed "$SEED" --verif "$PWD" --max "$RACECASES" --race-phase; rc2=$?
[ $rc -ne 0 ] && exit $rc
exit $rc2
