#!/bin/bash
# usage: check.sh <property id> [quick|thorough]
# Rebuilds the harness against /repo's current working tree (build tag verif) and runs one check.
set -u
cd "$(dirname "$0")"
ID="$1"; TIER="${2:-${VERIF_TIER:-quick}}"
export GOFLAGS=-mod=mod GOPROXY=off
unset GOTOOLCHAIN GOSUMDB 2>/dev/null
mkdir -p bin logs evidence replays
BUILDLOG=logs/build-$ID.log
BIN=bin/verif
RACE=""
case "$ID" in C17) BIN=bin/verif-race; RACE="-race";; esac
( cd harness && go build $RACE -tags verif -o ../$BIN ./cmd/verif ) >"$BUILDLOG" 2>&1
if [ $? -ne 0 ]; then
  echo "build failed (see $BUILDLOG):"; tail -30 "$BUILDLOG"
  echo "VIOLATION property=$ID replay=$PWD/$BUILDLOG"
  exit 1
fi
exec ./$BIN check "$ID" --tier "$TIER" --seed "${VERIF_SEED:-1}" --verif "$PWD"
